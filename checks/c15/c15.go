// Package c15: contact query evaluation is total and logically consistent.
//
// Every case calls the real contactql.ParseQuery (resolver = real SessionAssets) and the real
// contactql.EvaluateQuery on a real flows.Contact read from JSON. The oracles are the clauses of the
// property statement: no panic; AND/OR combine operand results; Simplify keeps the meaning;
// empty-valued =/!= test absence/presence; for number and date properties exactly one of <,=,>
// holds, <=/>= are the unions, != negates =; dates are compared by calendar day in the
// environment's zone (reference: y-m-d of the instant in that zone).
//
// The world has text fields whose key is also an attribute name or a URN scheme (so that conditions on
// both meet in one AND/OR, part D) and the contacts include typed fields whose stored value has no
// typed part (parts A, B, C); part F reaches the evaluator through Contact.ReevaluateQueryBasedGroups;
// part G (multi.go) is about properties with several values (URNs of one scheme, the urn attribute):
// every order of the values, != against =, any/all of the per-value verdicts.
package c15

import (
	"encoding/json"
	"fmt"
	"runtime/debug"
	"sort"
	"strings"
	"time"

	"github.com/nyaruka/gocommon/dates"
	"github.com/nyaruka/gocommon/urns"
	"github.com/nyaruka/goflow/flows"
	"verif/mc"
)

// group is a shardable unit of work: it emits cases.
type group struct {
	name string
	gen  func(emit func(*Case))
}

// ---- part A: single conditions ------------------------------------------------------------------

var operatorsAsWritten = []string{"=", "!=", "~", ">", "<", ">=", "<=", "has", "is", "HAS"}

var sameKeyedFields = []string{"name", "language", "twitter", "tickets"}

func propertiesAsWritten() []string {
	props := []string{"uuid", "id", "name", "status", "language", "urn", "group", "flow", "history", "tickets", "created_on", "last_seen_on", "NAME"}
	var schemes []string
	for _, s := range urns.Schemes {
		schemes = append(schemes, s.Prefix)
	}
	sort.Strings(schemes)
	for _, s := range schemes {
		props = append(props, s, "urns."+s)
	}
	for _, f := range []string{"gender", "age", "joined", "state", "district", "ward"} {
		props = append(props, f, "fields."+f)
	}
	// fields whose key is also an attribute name or a URN scheme: written bare they are the attribute
	// or scheme (listed above), the field is reached with its prefix only
	for _, f := range sameKeyedFields {
		props = append(props, "fields."+f)
	}
	return append(props, "nope", "fields.nope", "urns.nope", "attrs.name")
}

func condValues(df string) []string {
	d1 := Day{2025, 6, 15}
	d2 := Day{2020, 1, 1}
	vals := []string{
		`""`, `bob`, `"Ann Lee"`, `an`, `a`, `F`, `active`, `blocked`, `eng`, `Testers`, `"no such group"`, `Registration`,
		`+12065551212`, `2065`, `20`, `ann`, `"Kigali City"`, `Gasabo`, `Ndera`, `"x y"`, `fra`,
		`-1`, `0`, `0.5`, `1`, `1000000000000000000`, `1e3`, `+1`, `.5`, `1.`, `1,5`,
		`"` + d1.format(df) + `"`, `"` + d2.format(df) + `"`, `"` + d2.format(df) + ` 12:00"`, `2020-01-01T12:00:00Z`, `13-13-2025`, `"` + d1.format(df) + ` 25:99"`,
	}
	if df != "YYYY-MM-DD" {
		vals = append(vals, d1.String())
	}
	return vals
}

func instantUTC(y int, m time.Month, d, hh, mm int) string {
	return rfc(time.Date(y, m, d, hh, mm, 0, 0, time.UTC))
}

// genericProfiles: the empty contact, the full contact, and contacts that differ from the full one in
// one respect (missing value, several URNs of one scheme, other status...), among them contacts whose
// number, datetime and location fields hold stored values without the typed part of the field's type.
func genericProfiles() []Profile {
	full := Profile{
		Name: "Ann Lee", Lang: "eng", URNs: []string{"tel:+12065551212"}, Gender: "F", Age: "1", Joined: instantUTC(2025, 6, 15, 12, 0),
		State: "Rwanda > Kigali City", District: "Rwanda > Kigali City > Gasabo", Ward: "Rwanda > Kigali City > Gasabo > Ndera",
		CreatedOn: defaultCreatedOn, LastSeen: instantUTC(2025, 6, 15, 12, 0), Ticket: true, InGroup: true,
		FName: "bob", FLang: "fra", FTwitter: "ann", FTickets: "1",
	}
	ps := []Profile{{CreatedOn: defaultCreatedOn}, full}
	mod := func(f func(p *Profile)) {
		p := full
		p.URNs = append([]string{}, full.URNs...)
		f(&p)
		ps = append(ps, p)
	}
	mod(func(p *Profile) { p.Name = "" })
	mod(func(p *Profile) { p.Name = "bob" })
	mod(func(p *Profile) { p.Lang = "" })
	mod(func(p *Profile) { p.URNs = nil })
	mod(func(p *Profile) { p.URNs = []string{"tel:+12065551212", "tel:+12065553333", "twitter:ann"} })
	mod(func(p *Profile) { p.URNs = []string{"twitter:bob", "mailto:ann@example.com", "whatsapp:12065551212"} })
	mod(func(p *Profile) { p.Gender = "" })
	mod(func(p *Profile) { p.Age = "" })
	mod(func(p *Profile) { p.Age = "-1" })
	mod(func(p *Profile) { p.Age = "0.5" })
	mod(func(p *Profile) { p.Age = "1000000000000000000" })
	mod(func(p *Profile) { p.Joined = "" })
	mod(func(p *Profile) { p.Joined = instantUTC(2020, 1, 1, 0, 0) })
	mod(func(p *Profile) { p.State, p.District, p.Ward = "", "", "" })
	mod(func(p *Profile) { p.Ward = "" })
	mod(func(p *Profile) { p.LastSeen = "" })
	mod(func(p *Profile) { p.Ticket = false })
	mod(func(p *Profile) { p.InGroup = false })
	mod(func(p *Profile) { p.Status = "blocked" })
	mod(func(p *Profile) { p.CreatedOn = instantUTC(2025, 6, 15, 0, 0) })
	// the same-keyed fields unset while the attributes are set (the profiles above without name,
	// language or URNs are the converse)
	mod(func(p *Profile) { p.FName, p.FLang, p.FTwitter, p.FTickets = "", "", "", "" })
	// every typed field holds a text only (one that does not read as the field's type)
	mod(func(p *Profile) { *p = oddProfile(*p, oddTextOnly) })
	// ... a text that reads as the field's type, still without the typed part (stored before the field got its type)
	mod(func(p *Profile) { *p = oddProfile(*p, oddTextOfTheType) })
	// ... a text with the typed part of another type (FieldValues.Parse fills in every type the text reads as)
	mod(func(p *Profile) { *p = oddProfile(*p, oddForeignPart) })
	return ps
}

// the alphabet of odd stored values per typed field
var (
	oddTextOnly = map[string]Odd{
		"age": {Text: "old"}, "joined": {Text: "a while ago"}, "state": {Text: "Kigali City"}, "district": {Text: "Gasabo"}, "ward": {Text: "Ndera"},
	}
	oddTextOfTheType = map[string]Odd{
		"age": {Text: "1"}, "joined": {Text: "2025-06-15T12:00:00Z"}, "state": {Text: "Rwanda > Kigali City"},
		"district": {Text: "Rwanda > Kigali City > Gasabo"}, "ward": {Text: "Rwanda > Kigali City > Gasabo > Ndera"},
	}
	oddForeignPart = map[string]Odd{
		"age": {Text: "2025-06-15", Datetime: "2025-06-15T00:00:00Z"}, "joined": {Text: "20", Number: "20"}, "state": {Text: "1", Number: "1"},
		"district": {Text: "Kigali City", State: "Rwanda > Kigali City"}, "ward": {Text: "Kigali City", State: "Rwanda > Kigali City"},
	}
	oddAlphabets = []map[string]Odd{oddTextOnly, oddTextOfTheType, oddForeignPart}
)

func oddProfile(p Profile, odd map[string]Odd) Profile {
	for _, k := range typedFieldKeys {
		p = p.withOdd(k, odd[k])
	}
	return p
}

func envsOfPartA() []EnvSpec {
	var envsA []EnvSpec
	for _, z := range []string{"UTC", "America/New_York"} {
		for _, df := range dateFormats {
			envsA = append(envsA, EnvSpec{TZ: z, DF: df})
		}
	}
	return append(envsA, EnvSpec{TZ: "UTC", DF: "YYYY-MM-DD", Redact: true})
}

func partA(tier string) []group {
	envsA := envsOfPartA()
	profiles := genericProfiles()
	var gs []group
	for _, es := range envsA {
		for _, prop := range propertiesAsWritten() {
			es, prop := es, prop
			gs = append(gs, group{"cond/" + es.String() + "/" + prop, func(emit func(*Case)) {
				for _, op := range operatorsAsWritten {
					for _, v := range condValues(es.DF) {
						for _, p := range profiles {
							emit(&Case{Kind: "cond", Env: es, Contact: p, Query: prop + " " + op + " " + v})
						}
					}
				}
			}})
		}
	}
	return gs
}

// ---- part B: numbers ----------------------------------------------------------------------------

var numberQueryValues = []string{
	"-1", "0", "0.5", "1", "1000000000000000000", "0.50", "1.0", "1e18", "999999999999999999", "1000000000000000001",
	"0.5000000000000000001", "0.4999999999999999999", "00", "+1", ".5", "1.", "1e3", "-0.5", "1e-1", "2",
}
var numberContactValues = []string{"", "-1", "0", "0.5", "1", "1000000000000000000", "0.5000000000000000001", "1000000000000000001"}

func partB(tier string) []group {
	var gs []group
	for _, es := range []EnvSpec{{TZ: "UTC", DF: "YYYY-MM-DD"}, {TZ: "America/New_York", DF: "DD-MM-YYYY"}} {
		for _, prop := range []string{"fields.age", "age", "tickets"} {
			es, prop := es, prop
			gs = append(gs, group{"number/" + es.String() + "/" + prop, func(emit func(*Case)) {
				var profiles []Profile
				if prop == "tickets" {
					profiles = []Profile{{CreatedOn: defaultCreatedOn}, {CreatedOn: defaultCreatedOn, Ticket: true}}
				} else {
					for _, a := range numberContactValues {
						profiles = append(profiles, Profile{CreatedOn: defaultCreatedOn, Name: "Ann", Age: a})
					}
					// stored values without a number part: no value for a number query
					for _, odd := range oddAlphabets {
						profiles = append(profiles, Profile{CreatedOn: defaultCreatedOn, Name: "Ann"}.withOdd("age", odd["age"]))
					}
				}
				for _, v := range numberQueryValues {
					for _, p := range profiles {
						emit(&Case{Kind: "number", Env: es, Contact: p, Prop: prop, Value: v})
					}
				}
			}})
		}
	}
	return gs
}

// ---- part C: dates ------------------------------------------------------------------------------

// queryDays: ordinary days, year/leap boundaries and the days on which the zones of the space
// change their UTC offset (23-hour and 25-hour days, incl. zones that switch at local midnight).
func queryDays(tier string) []Day {
	ds := []Day{
		{2025, 6, 15}, {2024, 2, 29}, {2024, 12, 31}, {2025, 1, 1},
		{2025, 3, 9}, {2025, 11, 2}, // America/New_York: 23 h, 25 h
		{2025, 4, 25}, {2025, 10, 30}, {2025, 10, 31}, // Africa/Cairo: switches at local midnight
		{2018, 11, 4}, {2018, 2, 17}, {2018, 2, 18}, // America/Sao_Paulo: switched at local midnight (America/Havana does on 2025-03-09 and 2025-11-02)
		{2025, 3, 10}, {2025, 12, 1},
	}
	if tier == "thorough" {
		seen := map[Day]bool{}
		for _, d := range ds {
			seen[d] = true
		}
		for t := time.Date(2024, 1, 1, 12, 0, 0, 0, time.UTC); t.Year() < 2026; t = t.Add(24 * time.Hour) {
			d := Day{t.Year(), t.Month(), t.Day()}
			if !seen[d] {
				ds = append(ds, d)
				seen[d] = true
			}
		}
	}
	return ds
}

type dateLiteral struct {
	kind, text string
}

func dateLiterals(d Day, es EnvSpec, full bool) []dateLiteral {
	loc := es.loc()
	ls := []dateLiteral{{"env-format", d.format(es.DF)}}
	if es.DF != "YYYY-MM-DD" {
		ls = append(ls, dateLiteral{"iso-date", d.String()})
	}
	if !full {
		return ls
	}
	ls = append(ls, dateLiteral{"env-format+time", d.format(es.DF) + " 10:30"})
	ten := time.Date(d.Y, d.M, d.D, 10, 30, 0, 0, loc)
	ls = append(ls, dateLiteral{"iso-env-offset", ten.Format("2006-01-02T15:04:05Z07:00")})
	for _, hh := range []int{2, 22} {
		t := time.Date(d.Y, d.M, d.D, hh, 0, 0, 0, loc)
		if dayOf(t, loc) != d {
			continue
		}
		ls = append(ls, dateLiteral{"iso-utc", t.UTC().Format("2006-01-02T15:04:05Z07:00")})
		ls = append(ls, dateLiteral{"iso-foreign-offset", t.In(time.FixedZone("", 5*3600)).Format("2006-01-02T15:04:05Z07:00")})
	}
	return ls
}

func dateInstants(d Day, loc *time.Location) []time.Time {
	s, e := dayBounds(d, loc)
	noon := time.Date(d.Y, d.M, d.D, 12, 0, 0, 0, loc)
	cand := []time.Time{
		s.Add(-12 * time.Hour), s.Add(-1), s, s.Add(1), noon, e.Add(-1), e, e.Add(1), e.Add(30 * time.Minute), e.Add(12 * time.Hour),
		s.Add(24*time.Hour - 1), s.Add(24 * time.Hour), s.Add(24*time.Hour + 30*time.Minute), s.Add(24*time.Hour - 30*time.Minute),
	}
	var out []time.Time
	seen := map[int64]bool{}
	for _, t := range cand {
		if !seen[t.UnixNano()] {
			seen[t.UnixNano()] = true
			out = append(out, t)
		}
	}
	return out
}

// zonesOf: the thorough tier adds a zone that switches at 01:00/02:00 UTC and one whose daylight
// saving shift is 30 minutes (days of 23 h 30 min and 24 h 30 min).
func zonesOf(tier string) []string {
	if tier == "thorough" {
		return append(append([]string{}, zones...), "Europe/London", "Australia/Lord_Howe")
	}
	return zones
}

func partC(tier string) []group {
	var gs []group
	days := queryDays(tier)
	base := len(queryDays("quick"))
	for _, z := range zonesOf(tier) {
		for _, df := range dateFormats {
			es := EnvSpec{TZ: z, DF: df}
			for di, d := range days {
				d := d
				full := di < base // the extra days of the thorough tier use the two plain literal kinds and two properties
				props := []string{"created_on", "last_seen_on", "fields.joined", "joined"}
				if !full {
					props = []string{"created_on", "fields.joined"}
				}
				gs = append(gs, group{"date/" + es.String() + "/" + d.String(), func(emit func(*Case)) {
					loc := es.loc()
					instants := dateInstants(d, loc)
					for _, prop := range props {
						for _, lit := range dateLiterals(d, es, full) {
							for _, t := range instants {
								p := Profile{Name: "Ann", CreatedOn: defaultCreatedOn}
								switch prop {
								case "created_on":
									p.CreatedOn = rfc(t.UTC())
								case "last_seen_on":
									p.LastSeen = rfc(t.UTC())
								default:
									p.Joined = rfc(t.UTC())
								}
								dd := d
								emit(&Case{Kind: "date", Env: es, Contact: p, Prop: prop, Value: lit.text, Day: &dd, QKind: lit.kind})
								// the same query parsed under another timezone than it is evaluated in
								other := "UTC"
								if es.TZ == "UTC" {
									other = "Asia/Tokyo"
								}
								dd2 := d
								emit(&Case{Kind: "date", Env: es, Contact: p, Prop: prop, Value: lit.text, Day: &dd2, QKind: lit.kind, ParsedIn: other})
							}
							if prop != "created_on" && full {
								dd := d
								emit(&Case{Kind: "date", Env: es, Contact: Profile{Name: "Ann", CreatedOn: defaultCreatedOn}, Prop: prop, Value: lit.text, Day: &dd, QKind: lit.kind})
							}
							if strings.Contains(prop, "joined") && full {
								// stored values without a datetime part: no value for a date query
								for _, odd := range oddAlphabets {
									dd := d
									emit(&Case{Kind: "date", Env: es, Contact: Profile{Name: "Ann", CreatedOn: defaultCreatedOn}.withOdd("joined", odd["joined"]), Prop: prop, Value: lit.text, Day: &dd, QKind: lit.kind})
								}
							}
						}
					}
				}})
			}
		}
	}
	return gs
}

// ---- part D: boolean structure ---------------------------------------------------------------

type atomSet struct {
	env   EnvSpec
	atoms []Atom
	// sameKeyed: the set consists of pairs of conditions on an attribute or URN scheme and on a field of
	// the same key; thoroughOnly: the set is left to the thorough tier
	sameKeyed, thoroughOnly bool
	// on[i] / off[i] modify a profile so that atom i is true / false
	on, off []func(p *Profile)
}

func atomSets() []atomSet {
	return []atomSet{
		{
			env: EnvSpec{TZ: "UTC", DF: "YYYY-MM-DD"},
			atoms: []Atom{
				{"attr", "name", "=", "ann lee"},
				{"field", "age", ">", "0"},
				{"urn", "tel", "~", "2065"},
				{"field", "joined", "=", "2025-06-15"},
			},
			on: []func(p *Profile){
				func(p *Profile) { p.Name = "Ann Lee" },
				func(p *Profile) { p.Age = "1" },
				func(p *Profile) { p.URNs = []string{"tel:+19995550000", "tel:+12065551212", "twitter:ann"} },
				func(p *Profile) { p.Joined = instantUTC(2025, 6, 15, 12, 0) },
			},
			off: []func(p *Profile){
				func(p *Profile) { p.Name = "Bob" },
				func(p *Profile) { p.Age = "-1" },
				func(p *Profile) { p.URNs = []string{"tel:+19995550000", "twitter:ann"} },
				func(p *Profile) { p.Joined = instantUTC(2025, 6, 16, 12, 0) },
			},
		},
		{
			env: EnvSpec{TZ: "America/New_York", DF: "DD-MM-YYYY"},
			atoms: []Atom{
				{"attr", "language", "=", ""},
				{"urn", "twitter", "!=", ""},
				{"field", "gender", "!=", "m"},
				{"attr", "created_on", "<=", "15-06-2025"},
			},
			on: []func(p *Profile){
				func(p *Profile) { p.Lang = "" },
				func(p *Profile) { p.URNs = []string{"tel:+19995550000", "twitter:ann"} },
				func(p *Profile) { p.Gender = "F" },
				func(p *Profile) { p.CreatedOn = instantUTC(2025, 6, 15, 12, 0) },
			},
			off: []func(p *Profile){
				func(p *Profile) { p.Lang = "eng" },
				func(p *Profile) { p.URNs = []string{"tel:+19995550000"} },
				func(p *Profile) { p.Gender = "M" },
				func(p *Profile) { p.CreatedOn = instantUTC(2025, 6, 17, 12, 0) },
			},
		},
		// an attribute and a field called language, a URN scheme and a field called twitter: same
		// operator, same value, independent truth values
		{
			sameKeyed: true,
			env:       EnvSpec{TZ: "UTC", DF: "YYYY-MM-DD"},
			atoms: []Atom{
				{"attr", "language", "=", "fra"},
				{"field", "language", "=", "fra"},
				{"urn", "twitter", "=", "bob"},
				{"field", "twitter", "=", "bob"},
			},
			on: []func(p *Profile){
				func(p *Profile) { p.Lang = "fra" },
				func(p *Profile) { p.FLang = "fra" },
				func(p *Profile) { p.URNs = []string{"tel:+19995550000", "twitter:bob"} },
				func(p *Profile) { p.FTwitter = "bob" },
			},
			off: []func(p *Profile){
				func(p *Profile) { p.Lang = "eng" },
				func(p *Profile) { p.FLang = "eng" },
				func(p *Profile) { p.URNs = []string{"tel:+19995550000", "twitter:ann"} },
				func(p *Profile) { p.FTwitter = "ann" },
			},
		},
		// the same with empty-valued conditions (presence / absence)
		{
			sameKeyed: true,
			env:       EnvSpec{TZ: "America/New_York", DF: "DD-MM-YYYY"},
			atoms: []Atom{
				{"attr", "name", "!=", ""},
				{"field", "name", "!=", ""},
				{"urn", "twitter", "=", ""},
				{"field", "twitter", "=", ""},
			},
			on: []func(p *Profile){
				func(p *Profile) { p.Name = "Ann Lee" },
				func(p *Profile) { p.FName = "bob" },
				func(p *Profile) { p.URNs = []string{"tel:+19995550000"} },
				func(p *Profile) { p.FTwitter = "" },
			},
			off: []func(p *Profile){
				func(p *Profile) { p.Name = "" },
				func(p *Profile) { p.FName = "" },
				func(p *Profile) { p.URNs = []string{"tel:+19995550000", "twitter:ann"} },
				func(p *Profile) { p.FTwitter = "ann" },
			},
		},
		// an attribute and a field of the same key but of different value types (number / text), and
		// the != operator
		{
			sameKeyed: true, thoroughOnly: true,
			env: EnvSpec{TZ: "Asia/Kathmandu", DF: "MM-DD-YYYY"},
			atoms: []Atom{
				{"attr", "tickets", "=", "1"},
				{"field", "tickets", "=", "1"},
				{"attr", "name", "!=", "bob"},
				{"field", "name", "!=", "bob"},
			},
			on: []func(p *Profile){
				func(p *Profile) { p.Ticket = true },
				func(p *Profile) { p.FTickets = "1" },
				func(p *Profile) { p.Name = "Ann Lee" },
				func(p *Profile) { p.FName = "Ann Lee" },
			},
			off: []func(p *Profile){
				func(p *Profile) { p.Ticket = false },
				func(p *Profile) { p.FTickets = "2" },
				func(p *Profile) { p.Name = "Bob" },
				func(p *Profile) { p.FName = "Bob" },
			},
		},
	}
}

func (as atomSet) profiles() []Profile {
	var ps []Profile
	for m := 0; m < 1<<len(as.atoms); m++ {
		p := Profile{CreatedOn: defaultCreatedOn}
		for i := range as.atoms {
			if m&(1<<i) != 0 {
				as.on[i](&p)
			} else {
				as.off[i](&p)
			}
		}
		ps = append(ps, p)
	}
	return ps
}

// boolTrees: every tree of depth <= 2 over 4 atoms with root arity 2 (children: an atom or a
// two-atom combination, 36 options) or - unless binaryOnly - root arity 3 (children: an atom or a
// two-atom combination of distinct atoms in index order, 16 options), plus the 4 single atoms.
func boolTrees(binaryOnly bool) []*Tree {
	var atoms, wide, narrow []*Tree
	for i := 0; i < 4; i++ {
		atoms = append(atoms, leaf(i))
	}
	wide = append(wide, atoms...)
	narrow = append(narrow, atoms...)
	for _, op := range []string{"and", "or"} {
		for i := 0; i < 4; i++ {
			for j := 0; j < 4; j++ {
				wide = append(wide, comb(op, leaf(i), leaf(j)))
				if i < j {
					narrow = append(narrow, comb(op, leaf(i), leaf(j)))
				}
			}
		}
	}
	ts := append([]*Tree{}, atoms...)
	for _, op := range []string{"and", "or"} {
		for _, a := range wide {
			for _, b := range wide {
				ts = append(ts, comb(op, a, b))
			}
		}
		for _, a := range narrow {
			for _, b := range narrow {
				for _, c := range narrow {
					if !binaryOnly {
						ts = append(ts, comb(op, a, b, c))
					}
				}
			}
		}
	}
	return ts
}

func hasAnd(t *Tree) bool {
	if t.Op == "and" {
		return true
	}
	for _, k := range t.Kids {
		if hasAnd(k) {
			return true
		}
	}
	return false
}

// simplifyTrees: constructed trees including the non-canonical ones the parser never produces
// unsimplified: single-child combinations and same-operator nesting, depth <= maxDepth (2 or 3).
func simplifyTrees(maxDepth int) []*Tree {
	var t1 []*Tree
	for i := 0; i < 4; i++ {
		t1 = append(t1, leaf(i))
	}
	atoms := append([]*Tree{}, t1...)
	for _, op := range []string{"and", "or"} {
		for _, a := range atoms {
			t1 = append(t1, comb(op, a))
			for _, b := range atoms {
				t1 = append(t1, comb(op, a, b))
			}
		}
	}
	t2 := append([]*Tree{}, t1...)
	for _, op := range []string{"and", "or"} {
		for _, a := range t1 {
			t2 = append(t2, comb(op, a))
			for _, b := range t1 {
				t2 = append(t2, comb(op, a, b))
			}
		}
	}
	if maxDepth < 3 {
		return t2
	}
	t3 := append([]*Tree{}, t2...)
	for _, op := range []string{"and", "or"} {
		for _, a := range t2 {
			if a.Op != "" {
				t3 = append(t3, comb(op, a))
			}
		}
	}
	return t3
}

const treeChunks = 16

func partD(tier string) []group {
	// (the bool groups are the heavier ones: listing them before the simplify groups instead of
	// alternating spreads both kinds over all workers)
	var gs, sgs []group
	thorough := tier == "thorough"
	for si, as := range atomSets() {
		as := as
		if as.thoroughOnly && !thorough {
			continue
		}
		// the sets of same-keyed conditions: quick takes the trees with a binary root and the
		// constructed trees of depth <= 2, thorough the same families as for the other sets
		reduced := as.sameKeyed && !thorough
		trees, stree := boolTrees(reduced), simplifyTrees(map[bool]int{true: 2, false: 3}[reduced])
		// written bare (no urns. / fields. prefix where the key alone names the property): for the
		// same-keyed sets in both tiers, for the other sets in the thorough tier
		bare := as.sameKeyed || thorough
		// a group is one sixteenth of the trees (by index) with all 16 contacts, so that each query text
		// is met - and parsed - by one worker only
		profiles := as.profiles()
		for ch := 0; ch < treeChunks; ch++ {
			ch := ch
			gs = append(gs, group{fmt.Sprintf("bool/%d/trees-%d-mod-%d", si, ch, treeChunks), func(emit func(*Case)) {
				for ti, t := range trees {
					if ti%treeChunks != ch {
						continue
					}
					styles := []string{"upper", "lower"}
					if hasAnd(t) {
						styles = append(styles, "implicit")
					}
					if t.Op == "" {
						styles = styles[:1]
					}
					for _, p := range profiles {
						for _, st := range styles {
							emit(&Case{Kind: "bool", Env: as.env, Contact: p, Atoms: as.atoms, Tree: t, Style: st})
						}
						if bare {
							emit(&Case{Kind: "bool", Env: as.env, Contact: p, Atoms: as.atoms, Tree: t, Style: "upper", Spelling: "bare"})
						}
					}
				}
			}})
			sgs = append(sgs, group{fmt.Sprintf("simplify/%d/trees-%d-mod-%d", si, ch, treeChunks), func(emit func(*Case)) {
				for ti, t := range stree {
					if ti%treeChunks != ch {
						continue
					}
					for _, p := range profiles {
						emit(&Case{Kind: "simplify", Env: as.env, Contact: p, Atoms: as.atoms, Tree: t})
					}
				}
			}})
		}
	}
	return append(gs, sgs...)
}

// ---- part F: group re-evaluation ---------------------------------------------------------------

// partF: Contact.ReevaluateQueryBasedGroups over the contacts and environments of part A.
func partF(tier string) []group {
	var gs []group
	for _, es := range envsOfPartA() {
		es := es
		gs = append(gs, group{"regroup/" + es.String(), func(emit func(*Case)) {
			for _, p := range genericProfiles() {
				emit(&Case{Kind: "regroup", Env: es, Contact: p})
			}
		}})
	}
	return gs
}

// ---- part E: risky cases (may not return) ------------------------------------------------------

func riskyCases() []*Case {
	es := EnvSpec{TZ: "UTC", DF: "YYYY-MM-DD"}
	p := Profile{Name: "Ann", Age: "1", CreatedOn: defaultCreatedOn}
	return []*Case{
		{Kind: "cond", Env: es, Contact: p, Query: "fields.age < 1e999999999"},
		{Kind: "cond", Env: es, Contact: p, Query: "fields.age = 1e-999999999"},
	}
}

func riskyDesc(cs *Case) string { return mc.JSON(cs) }

// ---- run ----------------------------------------------------------------------------------------

func allGroups(tier string) []group {
	var gs []group
	gs = append(gs, partA(tier)...)
	gs = append(gs, partB(tier)...)
	gs = append(gs, partC(tier)...)
	gs = append(gs, partD(tier)...)
	gs = append(gs, partF(tier)...)
	gs = append(gs, partG(tier)...)
	return gs
}

func record(c *mc.Ctx, cs *Case, o *obs, ps []Problem) {
	c.Add("evaluations", int64(o.evals))
	c.Inc("cases:" + cs.Kind)
	if o.admitted {
		c.Inc("distinct_nontrivial")
		c.Inc("admitted:" + cs.Kind)
	} else if o.reject != "" {
		c.Inc("rejected_by_validator:" + cs.Kind)
		c.Outcome("reject:" + o.reject)
	}
	for _, f := range o.facts {
		c.Fact(f)
	}
	for _, f := range o.outcomes {
		c.Outcome(f)
	}
	for _, p := range ps {
		c.Violation(p.Key, p.What, cs)
	}
}

func run(c *mc.Ctx) {
	// the caches of parsed queries and contacts are long-lived and large; collecting less often
	// saves about a quarter of the CPU time for some tens of MB per worker
	debug.SetGCPercent(400)
	dates.SetNowFunc(dates.NewFixedNow(time.Date(2025, 5, 4, 12, 30, 45, 0, time.UTC)))
	if _, err := sessionAssets(); err != nil {
		c.Violation("harness:assets", err.Error(), nil)
		return
	}
	for _, f := range oddValueProvenance() {
		c.Fact(f)
	}
	gs := allGroups(c.Tier)
	// VERIF_SEED only rotates the order in which groups are visited
	off := 0
	if len(gs) > 0 {
		off = int(uint64(c.Seed) % uint64(len(gs)))
	}
	// risky cases: one per shard index so that a hang costs one shard only
	for i, cs := range riskyCases() {
		if !c.Mine(len(gs) + 1 + i*5) {
			continue
		}
		desc := riskyDesc(cs)
		if !c.Risky(desc) {
			c.Inc("risky_cases_skipped_after_hang")
			continue
		}
		o := &obs{}
		ps := check(cs, o)
		c.Done()
		c.Inc("risky_cases_completed")
		record(c, cs, o, ps)
	}

	done := 0
	for k := range gs {
		i := (k + off) % len(gs)
		if !c.Mine(i) {
			continue
		}
		if c.Expired() {
			c.Cap(fmt.Sprintf("time budget reached after %d of this worker's groups; groups (part/environment/property or day or share of the trees) before the cap were enumerated completely", done))
			break
		}
		sampled := false
		gs[i].gen(func(cs *Case) {
			o := &obs{}
			var ps []Problem
			if pnc := mc.Guard(func() { ps = check(cs, o) }); pnc != "" {
				ps = append(ps, Problem{Key: "harness:panic:" + mc.PanicSite(pnc), What: pnc})
			}
			record(c, cs, o, ps)
			if !sampled && o.admitted && c.WantSample() && i%7 == 3 {
				sampled = true
				c.Sample(cs)
			}
		})
		done++
		c.Inc("groups")
	}
}

// oddValueProvenance asks the real FieldValues.Parse (what a set_contact_field action stores) for the
// values it makes of the odd texts of the alphabet, and reports as facts which of the odd stored
// values of the alphabet it reproduces exactly: the vacuity guard demands that text-only and
// foreign-part values of number and datetime fields are among them (they are not artefacts of
// hand-written contact JSON).
func oddValueProvenance() []string {
	sa, err := sessionAssets()
	if err != nil {
		return nil
	}
	env := EnvSpec{TZ: "UTC", DF: "YYYY-MM-DD"}.build()
	var facts []string
	for name, alphabet := range map[string]map[string]Odd{"text-only": oddTextOnly, "foreign-part": oddForeignPart} {
		for _, key := range typedFieldKeys {
			odd := alphabet[key]
			field := sa.Fields().Get(key)
			v := flows.FieldValues{}.Parse(env, sa.Fields(), field, odd.Text)
			if v == nil || v.Text.Native() != odd.Text || (v.Number != nil) != (odd.Number != "") || (v.Datetime != nil) != (odd.Datetime != "") {
				continue
			}
			if v.Number != nil && v.Number.Native().String() != odd.Number {
				continue
			}
			if v.Datetime != nil && dayOf(v.Datetime.Native(), time.UTC) != dayOf(mustRFC(odd.Datetime), time.UTC) {
				continue // (Parse fills in the time of day of the clock)
			}
			if odd.State == "" && v.State == "" && v.District == "" && v.Ward == "" {
				facts = append(facts, "odd-value-is-what-FieldValues.Parse-stores:"+name+":"+string(field.Type()))
			}
		}
	}
	return facts
}

func mustRFC(s string) time.Time {
	t, err := time.Parse(time.RFC3339Nano, s)
	if err != nil {
		panic("c15: bad instant " + s)
	}
	return t
}

func single(c *mc.Ctx, desc string) string {
	var cs Case
	if err := json.Unmarshal([]byte(desc), &cs); err != nil {
		return "bad risky case: " + err.Error()
	}
	o := &obs{}
	ps := check(&cs, o)
	return fmt.Sprintf("completed: %d problems", len(ps))
}

func classify(desc, output string, hang bool) (string, string) {
	var cs Case
	json.Unmarshal([]byte(desc), &cs)
	kind := "crash"
	if hang {
		kind = "does-not-return"
	}
	shape := "other"
	if strings.Contains(cs.Query, "e") && strings.Contains(cs.Query, "fields.age") {
		shape = "number-literal-with-huge-exponent"
	}
	return fmt.Sprintf("totality:evaluate-%s:%s", kind, shape),
		fmt.Sprintf("EvaluateQuery %s within the limit: env=%s query=%q contact=%s", map[bool]string{true: "did not return", false: "crashed the process"}[hang], cs.Env, cs.Query, cs.Contact.key())
}

func replayFn(c *mc.Ctx, raw json.RawMessage) (string, bool) {
	dates.SetNowFunc(dates.NewFixedNow(time.Date(2025, 5, 4, 12, 30, 45, 0, time.UTC)))
	var wrapper struct {
		Risky string `json:"risky"`
	}
	if json.Unmarshal(raw, &wrapper) == nil && wrapper.Risky != "" {
		raw = json.RawMessage(wrapper.Risky)
	}
	var cs Case
	if err := json.Unmarshal(raw, &cs); err != nil {
		return "bad replay: " + err.Error(), false
	}
	type result struct {
		ps []Problem
		o  *obs
	}
	ch := make(chan result, 1)
	go func() {
		o := &obs{}
		var ps []Problem
		if pnc := mc.Guard(func() { ps = check(&cs, o) }); pnc != "" {
			ps = append(ps, Problem{Key: "harness:panic:" + mc.PanicSite(pnc), What: pnc})
		}
		ch <- result{ps, o}
	}()
	select {
	case r := <-ch:
		out := fmt.Sprintf("case: %s\nadmitted=%t reject=%q evaluations=%d\n", mc.JSON(cs), r.o.admitted, r.o.reject, r.o.evals)
		for _, p := range r.ps {
			out += fmt.Sprintf("PROBLEM %s\n  %s\n", p.Key, strings.ReplaceAll(p.What, "\n", "\n  "))
		}
		return out, len(r.ps) > 0
	case <-time.After(10 * time.Second):
		return fmt.Sprintf("case: %s\nPROBLEM: the evaluation did not return within 10 s", mc.JSON(cs)), true
	}
}

func guards(r *mc.Result, tier string) []string {
	var f []string
	need := func(fact string) {
		if r.Facts[fact] == 0 {
			f = append(f, "never observed: "+fact)
		}
	}
	for _, op := range []string{"=", "!=", "~", ">", "<", ">=", "<="} {
		need("admitted-op:" + op)
		need("cond-true:" + op)
		need("cond-false:" + op)
	}
	for _, cls := range []string{"attr.uuid", "attr.id", "attr.name", "attr.status", "attr.language", "attr.urn", "attr.group", "attr.flow", "attr.history",
		"attr.tickets", "attr.created_on", "attr.last_seen_on", "urn", "field.text", "field.number", "field.datetime", "field.state", "field.district", "field.ward"} {
		need("admitted-prop:" + cls)
	}
	for _, cls := range []string{"attr.name", "attr.language", "attr.urn", "attr.last_seen_on", "urn", "field.text", "field.number", "field.datetime", "field.state", "field.ward"} {
		need("existence-prop:" + cls)
	}
	for _, op := range []string{"=", "!="} {
		need("existence:" + op + ":present=true")
		need("existence:" + op + ":present=false")
	}
	for _, op := range []string{"<", "=", ">"} {
		need("number:holds:" + op)
		need("date:holds:" + op)
	}
	need("number:absent-value")
	need("date:absent-value")
	for _, w := range []string{"last-ns-before-day", "first-instant-of-day", "inside-day", "last-ns-of-day", "first-instant-after-day", "after-day", "before-day"} {
		need("date:instant:" + w)
	}
	for _, l := range []string{"23h", "24h", "25h"} {
		need("date:day-length:" + l)
	}
	for _, k := range []string{"env-format", "iso-date", "env-format+time", "iso-env-offset", "iso-utc", "iso-foreign-offset"} {
		need("date:query-kind:" + k)
	}
	for m := 0; m < 16; m++ {
		a := fmt.Sprintf("%04b", m)
		need("bool:assignment:" + a)
		need("simplify:assignment:" + a)
	}
	for _, s := range []string{"upper", "lower", "implicit"} {
		need("bool:style:" + s)
	}
	need("bool:spelling:bare")
	for _, k := range []string{"bool", "simplify"} {
		for _, op := range []string{"and", "or"} {
			need(k + ":same-keyed-properties:direct-operands-of-one-" + op)
			need(k + ":same-keyed-properties:operands-of-one-" + op + "-after-flattening")
		}
	}
	for _, cls := range []string{"field.number", "field.datetime", "field.state", "field.district", "field.ward"} {
		need("cond:stored-value-without-typed-part:" + cls)
	}
	for _, cls := range []string{"field.number", "field.datetime", "field.state"} {
		need("cond:stored-value-without-typed-part:compared-with-a-value:" + cls)
	}
	for _, k := range sameKeyedFields {
		need("cond:field-keyed-like-attribute-or-scheme:" + k)
	}
	need("number:stored-value-without-number-part")
	need("date:stored-value-without-datetime-part")
	for _, f := range []string{"text-only:number", "text-only:datetime", "foreign-part:number", "foreign-part:datetime"} {
		need("odd-value-is-what-FieldValues.Parse-stores:" + f)
	}
	for _, f := range []string{"member=true", "member=false", "stored-value-without-typed-part", "existence-only-group"} {
		need("regroup:" + f)
	}
	// part G: several values of one property, met by every operator with verdicts that disagree, the
	// deciding value first and not first; every clause exercised in both directions
	for _, cls := range []string{"urn", "attr.urn"} {
		for _, n := range []string{"none", "one", "several"} {
			need("multi:" + cls + ":values=" + n)
		}
		for _, op := range []string{"=", "!=", "~"} {
			for _, b := range []string{"true", "false"} {
				need("multi:" + cls + ":op=" + op + ":values=several:result=" + b)
				need("multi:" + cls + ":op=" + op + ":values-disagree:first-value-holds=" + b)
			}
		}
	}
	need("multi:attr.urn:values-of-several-schemes")
	need("multi:more-than-one-order")
	need("multi:existence:values=none")
	need("multi:existence:values=several")
	for _, f := range []string{"eq-and-ne:false", "eq-or-ne:true"} {
		need("multi:" + f)
	}
	need("bool:result:true")
	need("bool:result:false")
	need("simplify:changed-structure")
	need("simplify:kept-structure")
	for _, k := range []string{"cond", "number", "date", "bool", "simplify", "regroup", "multi"} {
		if r.Counters["admitted:"+k] == 0 {
			f = append(f, "no admitted case of kind "+k)
		}
	}
	if r.Counters["rejected_by_validator:multi"] == 0 {
		f = append(f, "the validator never rejected a condition on a multi-valued property (redacted URNs)")
	}
	if r.Counters["rejected_by_validator:cond"] == 0 {
		f = append(f, "the validator never rejected a condition (the admitted set is not decided by the real validator)")
	}
	if r.Counters["risky_cases_completed"]+r.Counters["risky_cases_skipped_after_hang"] < int64(len(riskyCases())) {
		f = append(f, "not all risky cases were attempted")
	}
	return f
}

func init() {
	mc.Register(&mc.Check{
		ID:    "C15",
		Level: "exploration",
		Rule: "exhaustive products, every case on the real ParseQuery (resolver = real SessionAssets) + EvaluateQuery + flows.Contact read from JSON: " +
			"(A) every property as written (12 attributes, every URN scheme bare and urns.-prefixed, a field of each of the 6 types bare and fields.-prefixed, 4 text fields whose key is also an attribute name or a URN scheme - name, language, tickets, twitter - fields.-prefixed, unknown names) x 10 operator spellings x 37-38 literals x 26 contacts x 7 environments - the real validator decides which conditions are admitted; no panic, and empty-valued =/!= must agree with presence in the contact model. " +
			"The contacts are the empty one, the full one and the full one changed in one respect, among them three whose number, datetime, state, district and ward fields hold a stored value WITHOUT the typed part of the field's type: the text alone (age = 'old', what the real FieldValues.Parse stores - a guard asks it), a text that reads as the type but has no typed part (stored before the field got its type), and a text with the typed part of another type (a date in the number field, a number in the datetime field, a state in the ward field); such a field is absent for queries; " +
			"(B) 3 number properties x 20 query literals x 11 contact values (8 numbers incl. none, 3 stored values without number part) x 6 operators: no panic; for a present value exactly-one-of <,=,>, <=/>= unions, != negation; " +
			"(C) 6 zones (thorough: 8, incl. a 30-minute daylight-saving shift) x 3 date formats x 14 query days (ordinary, leap/year ends, 23 h and 25 h days, zones switching at midnight; thorough: every day of 2024-2025) x 4 date properties x up to 8 ways of writing the day x 14 instants around both ends of the day (+-1 ns) x 6 operators: same relations, and each operator must equal the comparison of calendar days in the environment zone; for the datetime field also no value and the 3 stored values without datetime part (no panic); " +
			"(D) 2 atom sets x 16 contacts realising every truth assignment x every AND/OR tree of depth <= 2 (root arity 2: 36^2, arity 3: 16^3 children) in 3 spellings, result must be the conjunction/disjunction of the operands' own results; every constructed tree of depth <= 3 incl. single-child and same-operator nesting: Simplify() must keep the meaning, and the parsed (simplified) text must evaluate to it. " +
			"Plus 2 atom sets of SAME-KEYED conditions (attribute language and field language, URN scheme twitter and field twitter: '= value'; attribute name and field name '!= \"\"', scheme twitter and field twitter '= \"\"': each pair differs in the property type only and the 16 contacts give the four atoms independent truth values) x 16 contacts x every tree with a binary root (36^2 per operator, so that both conditions of a pair are direct operands of one AND/OR, operands of one only after flattening of nested groups, or in different groups - guards demand each) in the 3 spellings plus a 4th in which URN conditions are written bare (twitter = bob; the field keeps fields. as the bare key names the attribute/scheme), and every constructed tree of depth <= 2 for Simplify(). The thorough tier gives these sets the full tree families, adds a set with an attribute and a field of the same key but different value types (tickets: number / text) and the != operator, and writes the atoms of every set bare as well. " +
			"(F) Contact.ReevaluateQueryBasedGroups (6 query based groups over typed and same-keyed fields) on the 26 contacts x 7 environments of (A): no panic, for an active contact membership = the group's query evaluated on the contact, and for the groups made of empty-valued conditions = absence/presence per the contact model combined by AND/OR. " +
			"(G) MULTI-VALUED properties: 3 environments (one redacting URNs) x 8 properties as written (the urn attribute, tel / twitter bare and urns.-prefixed, ext, whatsapp, a scheme without URNs) x 14 query values (none, every path of the URN alphabet, parts of paths shared by several / one URN / too short for ~, another letter case, values no URN has) x every SET of <= 3 (thorough: 4) of 7 URNs (3 tel, 2 twitter, ext:ann whose path is twitter:ann's, whatsapp whose path is part of a tel path) - each set evaluated with its URNs in EVERY order (up to 6, thorough 24) and with each URN alone, under all 7 operators (the real validator admits =, !=, ~): no panic; no result depends on the order of the values; for a present property != is the negation of =; = and ~ hold iff they hold for any of the values and != iff for all of them (a value's own verdict = the real evaluator's answer for the contact with that URN alone); empty-valued =/!= agree with presence in the contact model; 'P = v AND P != v' and 'P = v OR P != v' are the conjunction/disjunction of their operands' results. Guards demand, per operator and for both the scheme and the urn attribute, several values whose verdicts disagree with the first value on either side. " +
			"distinct_nontrivial counts cases whose query the validator admitted (each case is a distinct tuple by construction).",
		Assumptions: []string{
			"bounded alphabets of literals, contacts, zones and days as listed in the rule; the parse and evaluate environments are the same",
			"absence/presence is not demanded for attributes a contact does not expose to queries (id, group, flow, history, status) nor where the validator forbids set-checks",
			"a number, datetime or location field is present for queries iff its stored value has the typed part of the field's type (Contact.QueryProperty supplies typed values; 'for a present value exactly one of <, =, > holds' cannot be met by a text): a stored value with the text alone, or with typed parts of other types only, counts as absent",
			"multi-valued properties (several URNs of a scheme, the urn attribute): 'logically consistent' is taken as: the values are a set (their order is immaterial), != negates = whenever the property is present, and =, ~ / != are the any / all of the per-value verdicts (the any/all mechanism the property names); how one text value is compared with the query value is not modelled - each value's verdict is the real evaluator's on the contact holding that value alone",
			"numeric order itself is not part of the statement: only the stated mutual consistency of the operators is demanded for numbers",
			"queries can only be evaluated after ParseQuery (ContactQuery has no constructor), so 'simplification never changes the result' is checked structurally on Simplify() over the operands' results and end-to-end on the parsed text",
		},
		Run:         run,
		Replay:      replayFn,
		Guards:      guards,
		Single:      single,
		Classify:    classify,
		HangLimit:   5 * time.Second,
		SingleLimit: 8 * time.Second,
		Budget:      map[string]time.Duration{"quick": 3 * time.Minute, "thorough": 15 * time.Minute},
	})
}
