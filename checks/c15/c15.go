// Package c15: (not built yet)
package c15
