package c15

import (
	"fmt"
	"strings"
	"time"

	"github.com/nyaruka/gocommon/urns"
	"github.com/nyaruka/goflow/contactql"
	"github.com/nyaruka/goflow/envs"
	"github.com/nyaruka/goflow/flows"
	"verif/mc"
)

// Case is one executable case and at the same time the replay artefact.
type Case struct {
	Kind    string  `json:"kind"` // cond | number | date | bool | simplify | regroup | multi | risky
	Env     EnvSpec `json:"env"`
	Contact Profile `json:"contact"`
	// cond, risky: the query text
	Query string `json:"query,omitempty"`
	// number, date: property as written and query literal as written (the six operators are derived);
	// multi: property as written and the query value (written quoted; all operators and all orders of the
	// contact's URNs are derived)
	Prop  string `json:"prop,omitempty"`
	Value string `json:"value,omitempty"`
	// date: the calendar day (in the environment's zone) the query literal denotes, known from how the
	// literal was generated; QKind says how it was written
	Day   *Day   `json:"day,omitempty"`
	QKind string `json:"query_kind,omitempty"`
	// date: timezone of the environment the query is PARSED in when it differs from the environment it
	// is evaluated in (hosts parse group queries once, with their default environment, and evaluate
	// them with each session's environment); "" = the same environment
	ParsedIn string `json:"parsed_in,omitempty"`
	// bool, simplify
	Atoms []Atom `json:"atoms,omitempty"`
	Tree  *Tree  `json:"tree,omitempty"`
	Style string `json:"style,omitempty"` // bool: upper | lower | implicit
	// bool: how the atoms are written. "" = every URN and field atom with its urns. / fields. prefix;
	// "bare" = without the prefix wherever the bare key still names that property (a URN scheme always
	// does; a field does unless its key is also an attribute name or a URN scheme)
	Spelling string `json:"spelling,omitempty"`
}

// Atom is an atomic condition given both as constructor arguments and (derived) as text.
type Atom struct {
	PT  string `json:"type"` // attr | urn | field
	Key string `json:"key"`
	Op  string `json:"op"`
	Val string `json:"value"`
}

func (a Atom) cond() *contactql.Condition {
	return contactql.NewCondition(contactql.PropertyType(a.PT), a.Key, contactql.Operator(a.Op), a.Val)
}

var attributeNames = map[string]bool{
	contactql.AttributeUUID: true, contactql.AttributeID: true, contactql.AttributeName: true, contactql.AttributeStatus: true,
	contactql.AttributeLanguage: true, contactql.AttributeURN: true, contactql.AttributeGroup: true, contactql.AttributeFlow: true,
	contactql.AttributeHistory: true, contactql.AttributeTickets: true, contactql.AttributeCreatedOn: true, contactql.AttributeLastSeenOn: true,
}

// text writes the atom as query text. The explicit spelling is the library's own Condition.String();
// the bare spelling drops the urns. / fields. prefix where the bare key still names the same property.
func (a Atom) text(spelling string) string {
	t := a.cond().String()
	if spelling != "bare" {
		return t
	}
	switch {
	case a.PT == "urn" && !attributeNames[a.Key]:
		return strings.TrimPrefix(t, "urns.")
	case a.PT == "field" && !attributeNames[a.Key] && !urns.IsValidScheme(a.Key):
		return strings.TrimPrefix(t, "fields.")
	}
	return t
}

// sameKeyPairs lists the pairs of atoms that differ in the type of their property only (an attribute
// or URN scheme and a field of the same key, same operator, same value).
func sameKeyPairs(atoms []Atom) [][2]int {
	var ps [][2]int
	for i := range atoms {
		for j := i + 1; j < len(atoms); j++ {
			if atoms[i].PT != atoms[j].PT && atoms[i].Key == atoms[j].Key && atoms[i].Op == atoms[j].Op && atoms[i].Val == atoms[j].Val {
				ps = append(ps, [2]int{i, j})
			}
		}
	}
	return ps
}

// Tree is a boolean structure over atom indexes.
type Tree struct {
	Op   string  `json:"op,omitempty"` // and | or ; "" for a leaf
	Kids []*Tree `json:"kids,omitempty"`
	Atom int     `json:"atom"`
}

// operands returns the atoms that are operands of this combination: direct = its leaf children,
// flat = also the leaves of nested combinations with the same operator and nested groups that repeat
// one condition (what flattening makes siblings).
func (t *Tree) operands() (direct, flat map[int]bool) {
	direct, flat = map[int]bool{}, map[int]bool{}
	var walk func(n *Tree, top bool)
	walk = func(n *Tree, top bool) {
		for _, k := range n.Kids {
			switch {
			case k.Op == "":
				flat[k.Atom] = true
				if top {
					direct[k.Atom] = true
				}
			case k.Op == t.Op:
				walk(k, false)
			case k.only() >= 0:
				flat[k.only()] = true // a group that repeats one condition stands for that condition
			}
		}
	}
	walk(t, true)
	return
}

// only returns the atom when every leaf below the node is that one atom, else -1.
func (t *Tree) only() int {
	if t.Op == "" {
		return t.Atom
	}
	a := -1
	for i, k := range t.Kids {
		ka := k.only()
		if ka < 0 || (i > 0 && ka != a) {
			return -1
		}
		a = ka
	}
	return a
}

// pairFacts says how the tree brings two same-keyed atoms together: as direct operands of one
// combination, as operands of one combination only once nested same-operator groups are flattened,
// or only in different combinations.
func (t *Tree) pairFacts(pairs [][2]int, facts map[string]bool) {
	if t.Op == "" {
		return
	}
	direct, flat := t.operands()
	for _, p := range pairs {
		switch {
		case direct[p[0]] && direct[p[1]]:
			facts["direct-operands-of-one-"+t.Op] = true
		case flat[p[0]] && flat[p[1]]:
			facts["operands-of-one-"+t.Op+"-after-flattening"] = true
		}
	}
	for _, k := range t.Kids {
		k.pairFacts(pairs, facts)
	}
}

func leaf(i int) *Tree                 { return &Tree{Atom: i} }
func comb(op string, k ...*Tree) *Tree { return &Tree{Op: op, Kids: k, Atom: -1} }

// ref evaluates the tree with conjunction/disjunction over the given operand results.
func (t *Tree) ref(vals []bool) bool {
	if t.Op == "" {
		return vals[t.Atom]
	}
	if t.Op == "and" {
		for _, k := range t.Kids {
			if !k.ref(vals) {
				return false
			}
		}
		return true
	}
	for _, k := range t.Kids {
		if k.ref(vals) {
			return true
		}
	}
	return false
}

// text writes the tree as query text with every combination below the root parenthesised.
func (t *Tree) text(atoms []string, style string, root bool) string {
	if t.Op == "" {
		return atoms[t.Atom]
	}
	sep := " " + strings.ToUpper(t.Op) + " "
	switch {
	case style == "lower":
		sep = " " + t.Op + " "
	case style == "implicit" && t.Op == "and":
		sep = " "
	}
	parts := make([]string, len(t.Kids))
	for i, k := range t.Kids {
		parts[i] = k.text(atoms, style, false)
	}
	s := strings.Join(parts, sep)
	if !root {
		s = "(" + s + ")"
	}
	return s
}

// node builds the tree programmatically with the library's constructors.
func (t *Tree) node(atoms []Atom) contactql.QueryNode {
	if t.Op == "" {
		return atoms[t.Atom].cond()
	}
	kids := make([]contactql.QueryNode, len(t.Kids))
	for i, k := range t.Kids {
		kids[i] = k.node(atoms)
	}
	return contactql.NewBoolCombination(contactql.BoolOperator(t.Op), kids...)
}

func (t *Tree) String() string {
	if t.Op == "" {
		return fmt.Sprintf("%c", 'a'+t.Atom)
	}
	parts := make([]string, len(t.Kids))
	for i, k := range t.Kids {
		parts[i] = k.String()
	}
	return t.Op + "(" + strings.Join(parts, ",") + ")"
}

// Problem is a failed oracle clause.
type Problem struct {
	Key  string
	What string
}

// obs collects what a case observed, for counters and vacuity facts.
type obs struct {
	evals    int
	facts    []string
	outcomes []string
	admitted bool
	reject   string
}

func (o *obs) fact(f string)    { o.facts = append(o.facts, f) }
func (o *obs) outcome(f string) { o.outcomes = append(o.outcomes, f) }

var parseCache = map[string]parsed{}

type parsed struct {
	q    *contactql.ContactQuery
	err  error
	pnc  string
	code string
}

// parse calls the real parser with the real session assets as resolver (cached per env+text).
func parse(es EnvSpec, env envs.Environment, text string) parsed {
	k := es.String() + "\x00" + text
	if p, ok := parseCache[k]; ok {
		return p
	}
	var p parsed
	p.pnc = mc.Guard(func() { p.q, p.err = contactql.ParseQuery(env, text, resolver()) })
	if p.err != nil {
		p.code = "error"
		if isQ, qerr := contactql.IsQueryError(p.err); isQ {
			p.code = qerr.(*contactql.QueryError).Code()
		}
	}
	if len(parseCache) > 200000 {
		parseCache = map[string]parsed{}
	}
	parseCache[k] = p
	return p
}

func eval(env envs.Environment, q *contactql.ContactQuery, c *flows.Contact, o *obs) (res bool, pnc string) {
	o.evals++
	pnc = mc.Guard(func() { res = contactql.EvaluateQuery(env, q, c) })
	return
}

// propClass names the class of a property for signature keys: attr.<key>, urn, field.<type>.
func propClass(c *contactql.Condition) string {
	switch c.PropertyType() {
	case contactql.PropertyTypeAttribute:
		return "attr." + c.PropertyKey()
	case contactql.PropertyTypeURN:
		return "urn"
	default:
		if f := resolver().ResolveField(c.PropertyKey()); f != nil {
			return "field." + string(f.Type())
		}
		return "field.?"
	}
}

func panicProblem(stage, cls, op, pnc string, cs *Case) Problem {
	return Problem{
		Key:  fmt.Sprintf("panic:%s:%s:%s:op=%s", stage, mc.PanicSite(pnc), cls, op),
		What: fmt.Sprintf("%s panicked: env=%s query=%q\ncontact=%s\n%s", stage, cs.Env, cs.Query, cs.Contact.key(), pnc),
	}
}

// ---- kind "cond": totality and absence/presence on a single condition ------------------------

func checkCond(cs *Case, o *obs) []Problem {
	env := cs.Env.build()
	p := parse(cs.Env, env, cs.Query)
	if p.pnc != "" {
		return []Problem{{Key: "panic:parse:" + mc.PanicSite(p.pnc), What: fmt.Sprintf("ParseQuery panicked: env=%s query=%q\n%s", cs.Env, cs.Query, p.pnc)}}
	}
	if p.err != nil {
		o.reject = p.code
		return nil
	}
	o.admitted = true
	cond, isCond := p.q.Root().(*contactql.Condition)
	if !isCond {
		return []Problem{{Key: "harness:cond-case-is-not-a-condition", What: cs.Query}}
	}
	cls := propClass(cond)
	op := string(cond.Operator())
	contact, err := cs.Contact.contact()
	if err != nil {
		return []Problem{{Key: "harness:contact", What: err.Error()}}
	}
	res, pnc := eval(env, p.q, contact, o)
	if pnc != "" {
		return []Problem{panicProblem("evaluate", cls, op, pnc, cs)}
	}
	o.outcome(fmt.Sprintf("cond:%s:%s:%t", cls, op, res))
	if cond.PropertyType() == contactql.PropertyTypeField && cs.Contact.odd(cond.PropertyKey()) {
		o.fact("cond:stored-value-without-typed-part:" + cls)
		if cond.Value() != "" {
			o.fact("cond:stored-value-without-typed-part:compared-with-a-value:" + cls)
		}
	}
	if cond.PropertyType() == contactql.PropertyTypeField && (attributeNames[cond.PropertyKey()] || urns.IsValidScheme(cond.PropertyKey())) {
		o.fact("cond:field-keyed-like-attribute-or-scheme:" + cond.PropertyKey())
	}
	o.fact("admitted-op:" + op)
	o.fact("admitted-prop:" + cls)
	if res {
		o.fact("cond-true:" + op)
	} else {
		o.fact("cond-false:" + op)
	}
	if cond.Value() == "" && (cond.Operator() == contactql.OpEqual || cond.Operator() == contactql.OpNotEqual) {
		known, present := cs.Contact.present(cond.PropertyType(), cond.PropertyKey())
		if !known {
			o.fact("existence-check-on-unexposed-attribute")
			return nil
		}
		want := present
		if cond.Operator() == contactql.OpEqual {
			want = !present
		}
		o.fact(fmt.Sprintf("existence:%s:present=%t", op, present))
		o.fact("existence-prop:" + cls)
		if res != want {
			return []Problem{{
				Key: fmt.Sprintf("existence:%s:op=%s:property-present=%t:got=%t", cls, op, present, res),
				What: fmt.Sprintf("empty-valued %s must test %s of the property: env=%s query=%q evaluates to %t but the property is present=%t on contact %s",
					op, map[bool]string{true: "absence", false: "presence"}[cond.Operator() == contactql.OpEqual], cs.Env, cs.Query, res, present, cs.Contact.key()),
			}}
		}
	}
	return nil
}

// ---- the six comparison operators on one property/value/contact ------------------------------

var cmpOps = []string{"<", "=", ">", "<=", ">=", "!="}

type sixResult struct {
	res      map[string]bool
	cls      string
	admitted bool
	problems []Problem
}

func evalSix(cs *Case, o *obs, quote bool) sixResult {
	env := cs.Env.build()
	out := sixResult{res: map[string]bool{}}
	contact, err := cs.Contact.contact()
	if err != nil {
		out.problems = append(out.problems, Problem{Key: "harness:contact", What: err.Error()})
		return out
	}
	val := cs.Value
	if quote {
		val = `"` + val + `"`
	}
	nAdmitted := 0
	for _, op := range cmpOps {
		text := cs.Prop + " " + op + " " + val
		pspec, penv := cs.Env, env
		if cs.ParsedIn != "" {
			pspec.TZ = cs.ParsedIn
			penv = pspec.build()
			o.fact("date:parsed-in-another-environment")
		}
		p := parse(pspec, penv, text)
		sub := *cs
		sub.Query = text
		if p.pnc != "" {
			out.problems = append(out.problems, Problem{Key: "panic:parse:" + mc.PanicSite(p.pnc), What: fmt.Sprintf("ParseQuery panicked: env=%s query=%q\n%s", cs.Env, text, p.pnc)})
			continue
		}
		if p.err != nil {
			o.reject = p.code
			continue
		}
		nAdmitted++
		cond, isCond := p.q.Root().(*contactql.Condition)
		if !isCond {
			out.problems = append(out.problems, Problem{Key: "harness:comparison-case-is-not-a-condition", What: text})
			continue
		}
		out.cls = propClass(cond)
		res, pnc := eval(env, p.q, contact, o)
		if pnc != "" {
			out.problems = append(out.problems, panicProblem("evaluate", out.cls, op, pnc, &sub))
			continue
		}
		out.res[op] = res
	}
	out.admitted = nAdmitted == len(cmpOps)
	if nAdmitted != 0 && !out.admitted && len(out.problems) == 0 {
		out.problems = append(out.problems, Problem{Key: "harness:comparison-operators-not-uniformly-admitted", What: fmt.Sprintf("env=%s prop=%s value=%s", cs.Env, cs.Prop, cs.Value)})
	}
	o.admitted = out.admitted
	return out
}

// relations checks the stated mutual consistency of the six operators for a present value.
func relations(kind string, six sixResult, cs *Case) []Problem {
	r := six.res
	if len(r) != len(cmpOps) {
		return nil
	}
	var ps []Problem
	desc := fmt.Sprintf("env=%s property=%s query value=%q contact=%s\nresults: <:%t =:%t >:%t <=:%t >=:%t !=:%t",
		cs.Env, cs.Prop, cs.Value, cs.Contact.key(), r["<"], r["="], r[">"], r["<="], r[">="], r["!="])
	n := 0
	for _, op := range []string{"<", "=", ">"} {
		if r[op] {
			n++
		}
	}
	if n != 1 {
		ps = append(ps, Problem{Key: fmt.Sprintf("%s:%s:not-exactly-one-of-lt-eq-gt:lt=%t,eq=%t,gt=%t", kind, six.cls, r["<"], r["="], r[">"]),
			What: "for a present value exactly one of <, =, > must hold\n" + desc})
	}
	if r["<="] != (r["<"] || r["="]) {
		ps = append(ps, Problem{Key: fmt.Sprintf("%s:%s:le-is-not-lt-or-eq:le=%t", kind, six.cls, r["<="]), What: "<= must be the union of < and =\n" + desc})
	}
	if r[">="] != (r[">"] || r["="]) {
		ps = append(ps, Problem{Key: fmt.Sprintf("%s:%s:ge-is-not-gt-or-eq:ge=%t", kind, six.cls, r[">="]), What: ">= must be the union of > and =\n" + desc})
	}
	if r["!="] != !r["="] {
		ps = append(ps, Problem{Key: fmt.Sprintf("%s:%s:ne-is-not-negation-of-eq:ne=%t", kind, six.cls, r["!="]), What: "!= must be the negation of =\n" + desc})
	}
	return ps
}

// ---- kind "number" ----------------------------------------------------------------------------

func numberPresent(cs *Case) bool {
	if strings.Contains(cs.Prop, "tickets") {
		return true // tickets is always present (0 or 1)
	}
	return cs.Contact.Age != "" && !cs.Contact.odd("age")
}

func checkNumber(cs *Case, o *obs) []Problem {
	six := evalSix(cs, o, false)
	ps := six.problems
	if !six.admitted {
		return ps
	}
	if !numberPresent(cs) {
		o.fact("number:absent-value")
		if cs.Contact.odd("age") {
			o.fact("number:stored-value-without-number-part")
		}
		return ps
	}
	for _, op := range []string{"<", "=", ">"} {
		if six.res[op] {
			o.fact("number:holds:" + op)
			o.outcome("number:" + six.cls + ":" + op)
		}
	}
	return append(ps, relations("number", six, cs)...)
}

// ---- kind "date" ------------------------------------------------------------------------------

func dateInstant(cs *Case) (time.Time, bool) {
	var s string
	switch {
	case strings.Contains(cs.Prop, "created_on"):
		s = cs.Contact.CreatedOn
	case strings.Contains(cs.Prop, "last_seen_on"):
		s = cs.Contact.LastSeen
	default:
		s = cs.Contact.Joined
		if cs.Contact.odd("joined") {
			s = ""
		}
	}
	if s == "" {
		return time.Time{}, false
	}
	t, err := time.Parse(time.RFC3339Nano, s)
	if err != nil {
		panic("c15: bad instant in profile: " + s)
	}
	return t, true
}

func checkDate(cs *Case, o *obs) []Problem {
	six := evalSix(cs, o, true)
	ps := six.problems
	if !six.admitted {
		return ps
	}
	t, present := dateInstant(cs)
	if !present {
		o.fact("date:absent-value")
		if cs.Contact.odd("joined") && strings.Contains(cs.Prop, "joined") {
			o.fact("date:stored-value-without-datetime-part")
		}
		return ps
	}
	ps = append(ps, relations("date", six, cs)...)

	// calendar-day reference: compare the day of the instant in the environment's zone with the day
	// the query literal denotes
	loc := cs.Env.loc()
	qd := *cs.Day
	c := dayOf(t, loc).cmp(qd)
	want := map[string]bool{"<": c < 0, "=": c == 0, ">": c > 0, "<=": c <= 0, ">=": c >= 0, "!=": c != 0}
	start, end := dayBounds(qd, loc)
	dayLen := end.Sub(start)
	o.fact("date:day-length:" + fmtDur(dayLen))
	o.fact("date:query-kind:" + cs.QKind)
	assumedEnd := start.Add(24 * time.Hour)
	var where string
	switch {
	case t.Before(start):
		where = "before-day"
		if t.Equal(start.Add(-1)) {
			where = "last-ns-before-day"
		}
	case t.Equal(start):
		where = "first-instant-of-day"
	case !t.Before(end):
		where = "after-day"
		if t.Equal(end) {
			where = "first-instant-after-day"
		}
	case t.Equal(end.Add(-1)):
		where = "last-ns-of-day"
	default:
		where = "inside-day"
	}
	o.fact("date:instant:" + where)
	for _, op := range []string{"<", "=", ">"} {
		if six.res[op] {
			o.fact("date:holds:" + op)
		}
	}
	var wrong []string
	for _, op := range cmpOps {
		if six.res[op] != want[op] {
			wrong = append(wrong, fmt.Sprintf("%s gives %t, calendar-day comparison gives %t", op, six.res[op], want[op]))
		}
	}
	if len(wrong) == 0 {
		return ps
	}
	desc := fmt.Sprintf("env=%s property=%s query literal=%q (denotes calendar day %s, which lasts %s in this zone: [%s, %s))\ncontact value %s = %s local, calendar day %s\n%s",
		cs.Env, cs.Prop, cs.Value, qd, fmtDur(dayLen), rfc(start.In(loc)), rfc(end.In(loc)), rfc(t.UTC()), rfc(t.In(loc)), dayOf(t, loc), strings.Join(wrong, "; "))
	// signature: which feature of the day/literal the disagreement goes with
	noMidnight := !isLocalMidnight(start, loc)
	prev := qd.prev()
	cp := dayOf(t, loc).cmp(prev)
	wantPrev := map[string]bool{"<": cp < 0, "=": cp == 0, ">": cp > 0, "<=": cp <= 0, ">=": cp >= 0, "!=": cp != 0}
	asPrev := true
	for _, op := range cmpOps {
		if six.res[op] != wantPrev[op] {
			asPrev = false
		}
	}
	var ops []string
	for _, op := range cmpOps {
		if six.res[op] != want[op] {
			ops = append(ops, op)
		}
	}
	var key string
	switch {
	case (cs.QKind == "iso-utc" || cs.QKind == "iso-foreign-offset") && answersInLiteralsOwnOffset(cs.Value, t, six.res):
		// the literal carries its own UTC offset, different from the environment zone's, and all six
		// operators answer as a comparison of calendar days in that offset
		key = "date:calendar-day:query-literal-with-own-offset"
	case dayLen != 24*time.Hour && !t.Before(minT(end, assumedEnd)) && t.Before(maxT(end, assumedEnd)):
		// the instant lies between the true end of the day and start+24h
		key = "date:calendar-day:instant-between-day-end-and-start+24h:" + dayClass(dayLen)
	case noMidnight:
		// the day starts after a clock gap at local midnight; the literal class tells which
		// conversion meets the missing midnight (date-only: envs.DateTimeFromString and then the day
		// range; with a time: only the day range)
		lit := "date+time"
		if cs.QKind == "env-format" || cs.QKind == "iso-date" {
			lit = "date-only"
		}
		key = "date:calendar-day:day-without-local-midnight:literal=" + lit
		if !asPrev && !t.Before(start) {
			key += ":" + where // not the known shapes (previous day / start one gap early)
		}
	case repeatedMidnight(start, end, loc) && !t.Before(start) && t.Before(end):
		key = "date:calendar-day:day-with-repeated-local-midnight:" + where
	default:
		key = fmt.Sprintf("date:calendar-day:%s:ops=%s:day-length=%s:query=%s", where, strings.Join(ops, ","), fmtDur(dayLen), cs.QKind)
	}
	return append(ps, Problem{Key: key, What: "dates must be compared by calendar day in the environment's timezone\n" + desc})
}

// answersInLiteralsOwnOffset reports whether the six results are exactly the comparison of calendar
// days taken in the UTC offset written in the ISO literal (instead of the environment's zone).
func answersInLiteralsOwnOffset(literal string, t time.Time, res map[string]bool) bool {
	lit, err := time.Parse(time.RFC3339, literal)
	if err != nil {
		return false
	}
	own := lit.Location()
	c := dayOf(t, own).cmp(dayOf(lit, own))
	want := map[string]bool{"<": c < 0, "=": c == 0, ">": c > 0, "<=": c <= 0, ">=": c >= 0, "!=": c != 0}
	for _, op := range cmpOps {
		if res[op] != want[op] {
			return false
		}
	}
	return true
}

// dayClass folds the length of a day into shorter/longer than 24 h (23 h, 23 h 30 min... are one class).
func dayClass(d time.Duration) string {
	switch {
	case d < 24*time.Hour:
		return "day-shorter-than-24h"
	case d > 24*time.Hour:
		return "day-longer-than-24h"
	}
	return "day-of-24h"
}

func isLocalMidnight(t time.Time, loc *time.Location) bool {
	l := t.In(loc)
	return l.Hour() == 0 && l.Minute() == 0 && l.Second() == 0 && l.Nanosecond() == 0
}

// repeatedMidnight reports whether the wall clock shows 00:00 a second time inside the day (the
// clocks were set back across midnight).
func repeatedMidnight(start, end time.Time, loc *time.Location) bool {
	for _, x := range []time.Duration{30 * time.Minute, time.Hour, 2 * time.Hour} {
		t := start.Add(x)
		if t.Before(end) && isLocalMidnight(t, loc) {
			return true
		}
	}
	return false
}

func minT(a, b time.Time) time.Time {
	if a.Before(b) {
		return a
	}
	return b
}
func maxT(a, b time.Time) time.Time {
	if a.After(b) {
		return a
	}
	return b
}

// ---- kinds "bool" and "simplify" --------------------------------------------------------------

func atomResults(cs *Case, o *obs) ([]bool, []string, []Problem) {
	env := cs.Env.build()
	contact, err := cs.Contact.contact()
	if err != nil {
		return nil, nil, []Problem{{Key: "harness:contact", What: err.Error()}}
	}
	vals := make([]bool, len(cs.Atoms))
	texts := make([]string, len(cs.Atoms))
	for i, a := range cs.Atoms {
		texts[i] = a.text(cs.Spelling)
		p := parse(cs.Env, env, texts[i])
		if p.pnc != "" || p.err != nil {
			return nil, nil, []Problem{{Key: "harness:atom-does-not-parse", What: fmt.Sprintf("%q: %v %s", texts[i], p.err, p.pnc)}}
		}
		if got, isCond := p.q.Root().(*contactql.Condition); !isCond || got.String() != a.cond().String() {
			return nil, nil, []Problem{{Key: "harness:atom-as-written-is-another-condition", What: fmt.Sprintf("%q parses to %q, meant %q", texts[i], p.q.String(), a.cond().String())}}
		}
		res, pnc := eval(env, p.q, contact, o)
		if pnc != "" {
			sub := *cs
			sub.Query = texts[i]
			return nil, nil, []Problem{panicProblem("evaluate", "atom", a.Op, pnc, &sub)}
		}
		vals[i] = res
	}
	return vals, texts, nil
}

func assignment(vals []bool) string {
	var sb strings.Builder
	for _, v := range vals {
		if v {
			sb.WriteByte('1')
		} else {
			sb.WriteByte('0')
		}
	}
	return sb.String()
}

func checkBool(cs *Case, o *obs) []Problem {
	vals, texts, ps := atomResults(cs, o)
	if ps != nil {
		return ps
	}
	env := cs.Env.build()
	contact, _ := cs.Contact.contact()
	cs.Query = cs.Tree.text(texts, cs.Style, true)
	p := parse(cs.Env, env, cs.Query)
	if p.pnc != "" {
		return []Problem{{Key: "panic:parse:" + mc.PanicSite(p.pnc), What: fmt.Sprintf("ParseQuery panicked: %q\n%s", cs.Query, p.pnc)}}
	}
	if p.err != nil {
		return []Problem{{Key: "bool:composition-of-valid-conditions-rejected:" + p.code, What: fmt.Sprintf("env=%s query=%q: %v", cs.Env, cs.Query, p.err)}}
	}
	o.admitted = true
	res, pnc := eval(env, p.q, contact, o)
	if pnc != "" {
		return []Problem{panicProblem("evaluate", "combination", cs.Tree.Op, pnc, cs)}
	}
	want := cs.Tree.ref(vals)
	o.fact("bool:assignment:" + assignment(vals))
	o.fact("bool:style:" + cs.Style)
	if cs.Spelling != "" {
		o.fact("bool:spelling:" + cs.Spelling)
	}
	sameKey := ""
	if pairs := sameKeyPairs(cs.Atoms); len(pairs) > 0 {
		pf := map[string]bool{}
		cs.Tree.pairFacts(pairs, pf)
		for f := range pf {
			o.fact("bool:same-keyed-properties:" + f)
		}
		if len(pf) > 0 {
			sameKey = ":same-keyed-properties-in-one-combination"
		}
	}
	o.fact(fmt.Sprintf("bool:result:%t", res))
	o.outcome(fmt.Sprintf("bool:%s:%t", cs.Tree.Op, res))
	if res != want {
		return []Problem{{
			Key:  fmt.Sprintf("bool:not-compositional:root=%s:depth=%d:style=%s:got=%t%s", cs.Tree.Op, depth(cs.Tree), cs.Style, res, sameKey),
			What: fmt.Sprintf("env=%s query=%q (structure %s) evaluates to %t but its operands evaluate to %v (atoms %q), so conjunction/disjunction gives %t\ncontact=%s", cs.Env, cs.Query, cs.Tree, res, vals, texts, want, cs.Contact.key()),
		}}
	}
	return nil
}

func depth(t *Tree) int {
	d := 0
	for _, k := range t.Kids {
		if kd := depth(k) + 1; kd > d {
			d = kd
		}
	}
	return d
}

// refNode evaluates a library node structurally over the atoms' results (conditions are matched by
// their text form).
func refNode(n contactql.QueryNode, byText map[string]bool) (bool, error) {
	switch t := n.(type) {
	case *contactql.Condition:
		v, ok := byText[t.String()]
		if !ok {
			return false, fmt.Errorf("condition %q is not one of the atoms", t.String())
		}
		return v, nil
	case *contactql.BoolCombination:
		and := t.Operator() == contactql.BoolOperatorAnd
		acc := and
		for _, k := range t.Children() {
			v, err := refNode(k, byText)
			if err != nil {
				return false, err
			}
			if and {
				acc = acc && v
			} else {
				acc = acc || v
			}
		}
		return acc, nil
	}
	return false, fmt.Errorf("unexpected node %T", n)
}

func shapeOf(n contactql.QueryNode) string {
	switch t := n.(type) {
	case *contactql.Condition:
		return "c"
	case *contactql.BoolCombination:
		parts := make([]string, len(t.Children()))
		for i, k := range t.Children() {
			parts[i] = shapeOf(k)
		}
		return string(t.Operator()) + "(" + strings.Join(parts, ",") + ")"
	}
	return "nil"
}

func checkSimplify(cs *Case, o *obs) []Problem {
	vals, texts, ps := atomResults(cs, o)
	if ps != nil {
		return ps
	}
	byText := map[string]bool{}
	for i, t := range texts {
		byText[t] = vals[i]
	}
	want := cs.Tree.ref(vals)
	n := cs.Tree.node(cs.Atoms)
	var simp contactql.QueryNode
	if pnc := mc.Guard(func() { simp = n.Simplify() }); pnc != "" {
		return []Problem{{Key: "panic:simplify:" + mc.PanicSite(pnc), What: fmt.Sprintf("Simplify panicked on %s\n%s", cs.Tree, pnc)}}
	}
	o.admitted = true
	o.evals++
	if shapeOf(simp) != shapeOf(n) {
		o.fact("simplify:changed-structure")
	} else {
		o.fact("simplify:kept-structure")
	}
	o.fact("simplify:assignment:" + assignment(vals))
	sameKey := ""
	if pairs := sameKeyPairs(cs.Atoms); len(pairs) > 0 {
		pf := map[string]bool{}
		cs.Tree.pairFacts(pairs, pf)
		for f := range pf {
			o.fact("simplify:same-keyed-properties:" + f)
		}
		if len(pf) > 0 {
			sameKey = ":same-keyed-properties-in-one-combination"
		}
	}
	o.outcome("simplify:" + shapeOf(simp))
	got, err := refNode(simp, byText)
	if err != nil {
		return []Problem{{Key: "simplify:result-has-foreign-node", What: fmt.Sprintf("Simplify(%s) = %s: %v", cs.Tree, contactql.Stringify(simp), err)}}
	}
	if got != want {
		return []Problem{{
			Key:  fmt.Sprintf("simplify:changes-result:root=%s:simplified=%s%s", cs.Tree.Op, rootOp(simp), sameKey),
			What: fmt.Sprintf("%s (atoms %q = %v) means %t, but Simplify() gives %q which means %t", cs.Tree, texts, vals, want, contactql.Stringify(simp), got),
		}}
	}
	// and the real evaluator on the text of the unsimplified tree (ParseQuery simplifies it)
	env := cs.Env.build()
	contact, _ := cs.Contact.contact()
	cs.Query = contactql.Stringify(n)
	p := parse(cs.Env, env, cs.Query)
	if p.pnc != "" || p.err != nil {
		return []Problem{{Key: "simplify:text-of-constructed-tree-rejected", What: fmt.Sprintf("%q: %v %s", cs.Query, p.err, p.pnc)}}
	}
	res, pnc := eval(env, p.q, contact, o)
	if pnc != "" {
		return []Problem{panicProblem("evaluate", "combination", cs.Tree.Op, pnc, cs)}
	}
	if res != want {
		return []Problem{{
			Key:  fmt.Sprintf("simplify:parsed-query-result-differs:root=%s:got=%t%s", cs.Tree.Op, res, sameKey),
			What: fmt.Sprintf("env=%s %s written as %q parses (simplified) to %q and evaluates to %t; operands %v give %t\ncontact=%s", cs.Env, cs.Tree, cs.Query, p.q.String(), res, vals, want, cs.Contact.key()),
		}}
	}
	return nil
}

// ---- kind "regroup": the same evaluation reached through Contact.ReevaluateQueryBasedGroups ----

// groupModel: for the query based groups of the world whose queries consist of empty-valued =/!=
// only, membership follows from the statement alone (absence/presence, conjunction/disjunction).
var groupModel = map[string]func(p Profile) bool{
	"No language": func(p Profile) bool {
		_, a := p.present(contactql.PropertyTypeAttribute, "language")
		_, f := p.present(contactql.PropertyTypeField, "language")
		return !a && !f
	},
	"Tweets": func(p Profile) bool {
		_, u := p.present(contactql.PropertyTypeURN, "twitter")
		_, f := p.present(contactql.PropertyTypeField, "twitter")
		return u || f
	},
}

var groupParseEnv = EnvSpec{TZ: "UTC", DF: "YYYY-MM-DD"} // what the session assets of the world are built with

func checkRegroup(cs *Case, o *obs) []Problem {
	env := cs.Env.build()
	sa, err := sessionAssets()
	if err != nil {
		return []Problem{{Key: "harness:assets", What: err.Error()}}
	}
	orig, err := cs.Contact.contact()
	if err != nil {
		return []Problem{{Key: "harness:contact", What: err.Error()}}
	}
	contact := orig.Clone() // re-evaluation changes the contact's group list
	o.evals++
	if pnc := mc.Guard(func() { contact.ReevaluateQueryBasedGroups(env) }); pnc != "" {
		return []Problem{{
			Key:  "panic:regroup:" + mc.PanicSite(pnc),
			What: fmt.Sprintf("Contact.ReevaluateQueryBasedGroups panicked: env=%s contact=%s\n%s", cs.Env, cs.Contact.key(), pnc),
		}}
	}
	o.admitted = true
	active := cs.Contact.Status == "" || cs.Contact.Status == "active"
	var ps []Problem
	nQuery := 0
	for _, g := range sa.Groups().All() {
		if !g.UsesQuery() {
			continue
		}
		nQuery++
		got := contact.Groups().FindByUUID(g.UUID()) != nil
		o.fact(fmt.Sprintf("regroup:member=%t", got))
		o.outcome(fmt.Sprintf("regroup:%s:%t", g.Name(), got))
		if !active {
			continue // what membership a blocked contact gets is not this property's business: totality only
		}
		p := parse(groupParseEnv, groupParseEnv.build(), g.Query())
		if p.pnc != "" || p.err != nil {
			ps = append(ps, Problem{Key: "harness:group-query-does-not-parse", What: fmt.Sprintf("%q: %v %s", g.Query(), p.err, p.pnc)})
			continue
		}
		res, pnc := eval(env, p.q, orig, o)
		if pnc != "" {
			sub := *cs
			sub.Query = g.Query()
			ps = append(ps, panicProblem("evaluate", "group-query", "", pnc, &sub))
			continue
		}
		if want := res; got != want {
			ps = append(ps, Problem{
				Key:  fmt.Sprintf("regroup:membership-is-not-the-query-result:member=%t", got),
				What: fmt.Sprintf("env=%s group %q (query %q): the contact is member=%t after re-evaluation but the query evaluates to %t on the contact %s", cs.Env, g.Name(), g.Query(), got, res, cs.Contact.key()),
			})
		}
		if model := groupModel[g.Name()]; model != nil {
			o.fact("regroup:existence-only-group")
			if want := model(cs.Contact); got != want {
				ps = append(ps, Problem{
					Key:  fmt.Sprintf("regroup:existence-only-query:member=%t", got),
					What: fmt.Sprintf("env=%s group %q (query %q, empty-valued conditions only): absence/presence of the properties and AND/OR give member=%t, re-evaluation gives %t; contact %s", cs.Env, g.Name(), g.Query(), want, got, cs.Contact.key()),
				})
			}
		}
	}
	if nQuery == 0 {
		ps = append(ps, Problem{Key: "harness:no-query-based-groups", What: "the world has no query based group"})
	}
	for _, k := range typedFieldKeys {
		if cs.Contact.odd(k) {
			o.fact("regroup:stored-value-without-typed-part")
		}
	}
	return ps
}

func rootOp(n contactql.QueryNode) string {
	if b, ok := n.(*contactql.BoolCombination); ok {
		return string(b.Operator())
	}
	if n == nil {
		return "nil"
	}
	return "cond"
}

func check(cs *Case, o *obs) []Problem {
	switch cs.Kind {
	case "cond":
		return checkCond(cs, o)
	case "number":
		return checkNumber(cs, o)
	case "date":
		return checkDate(cs, o)
	case "bool":
		return checkBool(cs, o)
	case "simplify":
		return checkSimplify(cs, o)
	case "regroup":
		return checkRegroup(cs, o)
	case "multi":
		return checkMulti(cs, o)
	}
	return []Problem{{Key: "harness:unknown-case-kind:" + cs.Kind, What: cs.Kind}}
}
