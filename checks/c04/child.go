package c04

import (
	"bufio"
	"encoding/json"
	"fmt"
	"io"
	"os"
	"os/exec"
	"strconv"
	"strings"
	"sync"
	"sync/atomic"
	"syscall"
	"time"
	"unsafe"
)

// Every case runs in an isolated child process ("server") that the shard's worker feeds with group
// requests. The child publishes the index of the case it is about to execute in a shared memory word
// and streams reports; the worker polls that word and the child's CPU time, so a case that exhausts
// its CPU limit or kills the process (out of memory under the address-space cap, fatal error) is
// attributed exactly, recorded, and the child is restarted right after it - nothing else is redone.

// MemCapBytes is the address-space cap of a child (the "memory cap" of the oracle).
const MemCapBytes = 4 << 30

type request struct {
	Group      Group `json:"g"`
	From       int   `json:"from"`
	Skip       []int `json:"skip,omitempty"`
	Only       []int `json:"only,omitempty"` // run exactly these indices instead of [from, size)
	WantSample bool  `json:"want_sample,omitempty"`
	One        *Case `json:"one,omitempty"` // execute exactly this case (replays, confirmations)
}

const servePrefix = "@serve:"

// serve is the child side: reads requests from stdin, writes one JSON report per line to stdout.
func serve(tier, shmPath string) string {
	lim := syscall.Rlimit{Cur: MemCapBytes, Max: MemCapBytes}
	syscall.Setrlimit(syscall.RLIMIT_AS, &lim)
	out := bufio.NewWriterSize(os.Stdout, 1<<16)
	enc := json.NewEncoder(out)
	fail := func(msg string) string {
		enc.Encode(&delta{Fatal: msg, Done: true})
		out.Flush()
		return msg
	}
	f, err := os.OpenFile(shmPath, os.O_RDWR, 0)
	if err != nil {
		return fail("shm: " + err.Error())
	}
	mem, err := syscall.Mmap(int(f.Fd()), 0, 4096, syscall.PROT_READ|syscall.PROT_WRITE, syscall.MAP_SHARED)
	if err != nil {
		return fail("mmap: " + err.Error())
	}
	word := (*int64)(unsafe.Pointer(&mem[0]))
	r, err := newRT(tier)
	if err != nil {
		return fail(err.Error())
	}
	in := bufio.NewReaderSize(os.Stdin, 1<<20)
	for {
		line, err := in.ReadBytes('\n')
		if len(line) > 1 {
			var req request
			if jerr := json.Unmarshal(line, &req); jerr != nil {
				return fail("bad request: " + jerr.Error())
			}
			skip := map[int]bool{}
			for _, i := range req.Skip {
				skip[i] = true
			}
			pub := func(idx int) { atomic.StoreInt64(word, int64(idx)+1) }
			flush := func(d *delta) { enc.Encode(d); out.Flush() }
			if req.One != nil {
				if msg := r.runOne(req.Group, *req.One, pub, flush); msg != "" {
					return fail(msg)
				}
			} else {
				r.runGroup(req.Group, req.From, skip, req.Only, req.WantSample, pub, flush)
			}
		}
		if err != nil {
			return ""
		}
	}
}

// tailBuf keeps the last bytes written to it.
type tailBuf struct {
	mu  sync.Mutex
	buf []byte
	max int
}

func (t *tailBuf) Write(p []byte) (int, error) {
	t.mu.Lock()
	defer t.mu.Unlock()
	t.buf = append(t.buf, p...)
	if len(t.buf) > 2*t.max {
		t.buf = append([]byte{}, t.buf[len(t.buf)-t.max:]...)
	}
	return len(p), nil
}

func (t *tailBuf) String() string {
	t.mu.Lock()
	defer t.mu.Unlock()
	b := t.buf
	if len(b) > t.max {
		b = b[len(b)-t.max:]
	}
	return string(b)
}

// head keeps the first bytes (a Go fatal error prints its reason first, then many stacks).
type headTail struct {
	mu   sync.Mutex
	head []byte
	tail tailBuf
}

func (h *headTail) Write(p []byte) (int, error) {
	h.mu.Lock()
	if len(h.head) < 3000 {
		n := 3000 - len(h.head)
		if n > len(p) {
			n = len(p)
		}
		h.head = append(h.head, p[:n]...)
	}
	h.mu.Unlock()
	return h.tail.Write(p)
}

func (h *headTail) Head() string {
	h.mu.Lock()
	defer h.mu.Unlock()
	return string(h.head)
}

// child is the worker-side handle of one server process.
type child struct {
	cmd    *exec.Cmd
	stdin  io.WriteCloser
	lines  chan []byte // closed when the child's stdout ends
	stderr *headTail
	word   *int64
	mem    []byte
	shm    string
	dead   chan struct{}
}

func startChild(tier string) (*child, error) {
	f, err := os.CreateTemp("", "c04-shm-")
	if err != nil {
		return nil, err
	}
	defer f.Close()
	if err := f.Truncate(4096); err != nil {
		return nil, err
	}
	mem, err := syscall.Mmap(int(f.Fd()), 0, 4096, syscall.PROT_READ|syscall.PROT_WRITE, syscall.MAP_SHARED)
	if err != nil {
		return nil, err
	}
	exe, err := os.Executable()
	if err != nil {
		return nil, err
	}
	c := &child{mem: mem, shm: f.Name(), word: (*int64)(unsafe.Pointer(&mem[0])), stderr: &headTail{tail: tailBuf{max: 3000}}, dead: make(chan struct{})}
	c.cmd = exec.Command(exe, "C04", "--tier", tier, "--single", servePrefix+f.Name())
	c.cmd.Env = append(os.Environ(), "GOMAXPROCS=2", "GOGC=200")
	c.cmd.Stderr = c.stderr
	c.stdin, err = c.cmd.StdinPipe()
	if err != nil {
		return nil, err
	}
	stdout, err := c.cmd.StdoutPipe()
	if err != nil {
		return nil, err
	}
	if err := c.cmd.Start(); err != nil {
		return nil, err
	}
	c.lines = make(chan []byte, 64)
	go func() {
		rd := bufio.NewReaderSize(stdout, 1<<20)
		for {
			line, err := rd.ReadBytes('\n')
			if len(line) > 1 {
				c.lines <- line
			}
			if err != nil {
				break
			}
		}
		c.cmd.Wait()
		close(c.dead)
		close(c.lines)
	}()
	return c, nil
}

func (c *child) send(req *request) error {
	b, _ := json.Marshal(req)
	_, err := c.stdin.Write(append(b, '\n'))
	return err
}

// current returns the index of the case the child is executing, -1 when idle.
func (c *child) current() int { return int(atomic.LoadInt64(c.word)) - 1 }

// cpu returns the CPU time (user+system) the child has consumed.
func (c *child) cpu() time.Duration {
	b, err := os.ReadFile("/proc/" + strconv.Itoa(c.cmd.Process.Pid) + "/stat")
	if err != nil {
		return 0
	}
	s := string(b)
	// fields after the parenthesised command name
	if i := strings.LastIndex(s, ")"); i >= 0 {
		s = s[i+1:]
	}
	f := strings.Fields(s)
	if len(f) < 14 {
		return 0
	}
	ut, _ := strconv.ParseInt(f[11], 10, 64)
	st, _ := strconv.ParseInt(f[12], 10, 64)
	return time.Duration(ut+st) * (time.Second / 100) // USER_HZ is 100 on Linux
}

func (c *child) kill() {
	c.cmd.Process.Kill()
	<-c.dead
}

func (c *child) close() {
	if c == nil {
		return
	}
	c.stdin.Close()
	select {
	case <-c.dead:
	case <-time.After(5 * time.Second):
		c.cmd.Process.Kill()
		<-c.dead
	}
	syscall.Munmap(c.mem)
	os.Remove(c.shm)
}

func (c *child) discard() {
	c.kill()
	syscall.Munmap(c.mem)
	os.Remove(c.shm)
}

// failure describes why a child stopped on a case.
type failure struct {
	idx    int
	kind   string // "cpu-limit" | "out-of-memory" | "fatal" | "exit"
	detail string
	cpu    time.Duration
}

// classifyExit reads the reason of a dead child from its stderr.
func classifyExit(stderr string) (kind, detail string) {
	first := stderr
	if len(first) > 1500 {
		first = first[:1500]
	}
	switch {
	case strings.Contains(stderr, "out of memory") || strings.Contains(stderr, "cannot allocate memory") || strings.Contains(stderr, "failed to reserve") || strings.Contains(stderr, "errno=12"):
		return "out-of-memory", first
	case strings.Contains(stderr, "stack overflow") || strings.Contains(stderr, "goroutine stack exceeds"):
		return "fatal", "stack-overflow\n" + first
	case strings.Contains(stderr, "fatal error:"):
		i := strings.Index(stderr, "fatal error:")
		line := stderr[i:]
		if j := strings.Index(line, "\n"); j >= 0 {
			line = line[:j]
		}
		return "fatal", msgClass(strings.TrimPrefix(line, "fatal error:")) + "\n" + first
	case strings.Contains(stderr, "panic:"):
		return "fatal", "unrecovered-panic\n" + first
	}
	return "exit", first
}

// Limits of a tier: full is the single-case CPU limit (a case on <= 400 bytes of input that burns more
// is a hang); short is the limit of a case whose signature is covered by an already confirmed runaway
// class (it is only counted under that class's key, never creates a key).
type limits struct {
	full, short time.Duration
}

func limitsOf(tier string) limits {
	if tier == "thorough" {
		return limits{full: 60 * time.Second, short: 120 * time.Millisecond}
	}
	return limits{full: 20 * time.Second, short: 120 * time.Millisecond}
}

// drive sends one request to the child and follows it until the group is done or a case fails.
// onDelta receives every report; limitFor gives the CPU limit of an index.
func (c *child) drive(req *request, onDelta func(*delta), limitFor func(idx int) time.Duration) (done bool, fail *failure, err error) {
	done, fail, _, err = c.driveCPU(req, onDelta, limitFor)
	return
}

// driveCPU is drive that also returns the CPU time consumed since the request was sent.
func (c *child) driveCPU(req *request, onDelta func(*delta), limitFor func(idx int) time.Duration) (done bool, fail *failure, used time.Duration, err error) {
	start := c.cpu()
	done, fail, err = c.drive0(req, onDelta, limitFor)
	if done {
		used = c.cpu() - start
	}
	return
}

func (c *child) drive0(req *request, onDelta func(*delta), limitFor func(idx int) time.Duration) (done bool, fail *failure, err error) {
	if err := c.send(req); err != nil {
		// the child died before reading: treat as exit without a case
		<-c.dead
		return false, nil, fmt.Errorf("child not accepting requests: %v\n%s", err, c.stderr.Head())
	}
	cur, cpu0, wall0 := -2, c.cpu(), time.Now()
	var limit time.Duration
	tick := time.NewTicker(20 * time.Millisecond)
	defer tick.Stop()
	for {
		select {
		case line, ok := <-c.lines:
			if !ok {
				idx := c.current()
				kind, detail := classifyExit(c.stderr.Head() + "\n" + c.stderr.tail.String())
				if idx < 0 {
					return false, nil, fmt.Errorf("child exited outside a case (%s): %s", kind, detail)
				}
				return false, &failure{idx: idx, kind: kind, detail: detail, cpu: 0}, nil
			}
			var d delta
			if jerr := json.Unmarshal(line, &d); jerr != nil {
				return false, nil, fmt.Errorf("bad report from child: %v: %s", jerr, trimTo(string(line), 200))
			}
			if d.Fatal != "" {
				return false, nil, fmt.Errorf("child: %s", d.Fatal)
			}
			onDelta(&d)
			if d.Done {
				return true, nil, nil
			}
		case <-tick.C:
			idx := c.current()
			now := c.cpu()
			if idx != cur {
				cur, cpu0, wall0 = idx, now, time.Now()
				if idx >= 0 {
					limit = limitFor(idx)
				}
				continue
			}
			if idx < 0 {
				if time.Since(wall0) > 120*time.Second {
					c.kill()
					return false, nil, fmt.Errorf("child idle for 120 s\n%s", c.stderr.Head())
				}
				continue
			}
			// CPU time is the measure (other jobs share the machine); the wall-clock bound only
			// catches a case that blocks without consuming CPU
			if used := now - cpu0; used > limit || time.Since(wall0) > 10*limit+30*time.Second {
				c.kill()
				return false, &failure{idx: idx, kind: "cpu-limit", detail: fmt.Sprintf("no return after %.1f s of CPU (limit %.1f s, wall %.1f s)", used.Seconds(), limit.Seconds(), time.Since(wall0).Seconds()), cpu: used}, nil
			}
		}
	}
}
