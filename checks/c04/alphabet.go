package c04

import (
	"strings"
	"time"

	"github.com/nyaruka/gocommon/dates"
	"github.com/nyaruka/goflow/excellent/functions"
	"github.com/nyaruka/goflow/excellent/types"
	"github.com/shopspring/decimal"
)

// Val is one value of the boundary alphabet. Label is its stable name (replays name values by label,
// never by position). Mag is the static danger class used by the isolation predicate and by the
// signature keys of runaway cases:
//
//	""     benign
//	"m31"  a number of magnitude 2^31-1 / 2^31 that still fits a 32-bit integer (passes ToInteger)
//	"m63"  magnitude >= 2^31 that fits a 64-bit integer (also a text that parses as such a number)
//	"big"  magnitude beyond a 64-bit integer
//	"xexp" a JSON number with a huge decimal exponent (only in the webhook-JSON sub-space)
type Val struct {
	Label string
	Mag   string
	Make  func() types.XValue
}

func num(s string) func() types.XValue {
	return func() types.XValue { return types.NewXNumber(decimal.RequireFromString(s)) }
}

func text(s string) func() types.XValue {
	return func() types.XValue { return types.NewXText(s) }
}

// Long400 is the "very long text" of the alphabet: 400 bytes of words, digits and blanks.
var Long400 = strings.Repeat("ab1 ", 100)

const nestedJSON = `{"a":[1,{"b":null},"x"],"n":1.5,"s":"x","t":true,"o":{"__default__":"d","k":[]}}`

// Alphabet is the full boundary alphabet (see DESIGN.md C04). Order is the enumeration order.
var Alphabet = []Val{
	{"nil", "", func() types.XValue { return nil }},
	{"err", "", func() types.XValue { return types.NewXErrorf("boom") }},
	{"b:true", "", func() types.XValue { return types.XBooleanTrue }},
	{"b:false", "", func() types.XValue { return types.XBooleanFalse }},

	{"n:0", "", num("0")},
	{"n:-1", "", num("-1")},
	{"n:1", "", num("1")},
	{"n:0.5", "", num("0.5")},
	{"n:1e-30", "", num("0.000000000000000000000000000001")},
	{"n:2147483647", "m31", num("2147483647")},
	{"n:-2147483648", "m31", num("-2147483648")},
	{"n:2147483648", "m63", num("2147483648")},
	{"n:-2147483649", "m63", num("-2147483649")},
	{"n:1e18", "m63", num("1000000000000000000")},
	{"n:1e30", "big", num("1000000000000000000000000000000")},

	{"t:", "", text("")},
	{"t:a", "", text("a")},
	{"t:0", "", text("0")},
	{"t:é", "", text("é")}, // one character, two bytes: character counts and byte lengths disagree
	{"t:-1", "", text("-1")},
	{"t:2147483648", "m63", text("2147483648")},
	{"t:1e5", "", text("1e5")},
	{"t:blank", "", text(" \t")},
	{"t:(", "", text("(")},
	{"t:backslash", "", text(`\`)},
	{"t:long400", "", text(Long400)},
	{"t:2024-02-30", "", text("2024-02-30")},
	{"t:24:61", "", text("24:61")},
	{"t:D", "", text("D")},
	{"t:Z", "", text("Z")},
	{"t:tel:+1", "", text("tel:+1")},
	{"t:image:http://x", "", text("image:http://x")},

	{"d:2024-02-29", "", func() types.XValue { return types.NewXDate(dates.NewDate(2024, 2, 29)) }},
	{"dt:2025-03-09T02:30", "", func() types.XValue {
		return types.NewXDateTime(time.Date(2025, 3, 9, 7, 30, 15, 123456789, time.UTC))
	}},
	{"tm:23:59:59", "", func() types.XValue { return types.NewXTime(dates.NewTimeOfDay(23, 59, 59, 999999999)) }},

	{"a:[]", "", func() types.XValue { return types.NewXArray() }},
	{"a:[1,a]", "", func() types.XValue {
		return types.NewXArray(types.NewXNumberFromInt(1), types.NewXText("a"))
	}},
	{"a:nested", "", func() types.XValue {
		return types.NewXArray(
			types.NewXArray(types.NewXNumberFromInt(2), types.NewXArray()),
			types.NewXObject(map[string]types.XValue{"uuid": types.NewXText("a")}),
			nil,
			types.NewXText("b"),
		)
	}},

	{"a:null+multiline", "", func() types.XValue {
		// an item that formats to nothing next to one that formats over several lines
		return types.NewXArray(nil, types.NewXObject(map[string]types.XValue{"a": types.NewXNumberFromInt(1), "b": types.NewXNumberFromInt(2)}))
	}},

	{"o:{}", "", func() types.XValue { return types.NewXObject(map[string]types.XValue{}) }},
	{"o:default", "", func() types.XValue {
		return types.NewXObject(map[string]types.XValue{
			"__default__": types.NewXNumberFromInt(3),
			"match":       types.NewXText("x"),
		})
	}},
	{"o:result", "", func() types.XValue {
		return types.NewXObject(map[string]types.XValue{
			"__default__":          types.NewXText("yes"),
			"name":                 types.NewXText("Intent"),
			"value":                types.NewXText("yes"),
			"category":             types.NewXText("Yes"),
			"category_localized":   types.NewXText("Oui"),
			"input":                types.NewXText("yes please"),
			"node_uuid":            types.NewXText("8c1e0f6f-8b1c-4b3e-9a0e-0f6f8b1c4b3e"),
			"created_on":           types.NewXDateTime(time.Date(2025, 1, 2, 3, 4, 5, 0, time.UTC)),
			"extra":                types.JSONToXValue([]byte(`{"intents":[{"name":"book_flight","confidence":0.9},{"name":"a","confidence":0.5}],"entities":{"location":[{"value":"Quito","confidence":1}]}}`)),
			"values":               types.NewXArray(types.NewXText("yes")),
			"categories":           types.NewXArray(types.NewXText("Yes")),
			"categories_localized": types.NewXArray(types.NewXText("Oui")),
		})
	}},

	{"f:upper", "", func() types.XValue { return functions.XFUNCTIONS["upper"] }},
	{"j:nested", "", func() types.XValue { return types.JSONToXValue([]byte(nestedJSON)) }},
}

// Core12 is the arity-4 alphabet of the quick tier; Mini6 the arity-5 alphabet.
var Core12 = []string{"nil", "err", "b:true", "n:0", "n:-1", "n:0.5", "n:2147483647", "n:1e18", "t:", "t:a", "a:[1,a]", "o:result"}
var Mini6 = []string{"nil", "n:-1", "n:2147483647", "t:a", "a:[1,a]", "f:upper"}

// XExp are the webhook-JSON numbers with a huge exponent (12-13 bytes of JSON): sub-space (iv).
var XExp = []Val{
	{"j:1e999999999", "xexp", func() types.XValue { return types.JSONToXValue([]byte(`1e999999999`)) }},
	{"j:1e-999999999", "xexp", func() types.XValue { return types.JSONToXValue([]byte(`1e-999999999`)) }},
}

var valIndex = func() map[string]int {
	m := map[string]int{}
	for i, v := range Alphabet {
		m[v.Label] = i
	}
	for i, v := range XExp {
		m[v.Label] = len(Alphabet) + i
	}
	for i, v := range CaseVals {
		m[v.Label] = len(Alphabet) + len(XExp) + i
	}
	return m
}()

// allVals is Alphabet followed by XExp and CaseVals (value ids index into it).
func allVals() []Val { return append(append(append([]Val{}, Alphabet...), XExp...), CaseVals...) }

func idsOf(labels []string) []int {
	out := make([]int, len(labels))
	for i, l := range labels {
		id, ok := valIndex[l]
		if !ok {
			panic("c04: unknown alphabet label " + l)
		}
		out[i] = id
	}
	return out
}

func fullIDs() []int {
	out := make([]int, len(Alphabet))
	for i := range Alphabet {
		out[i] = i
	}
	return out
}

// split partitions value ids into benign and dangerous ones.
func split(ids []int) (benign, huge []int) {
	all := allVals()
	for _, id := range ids {
		if all[id].Mag == "" {
			benign = append(benign, id)
		} else {
			huge = append(huge, id)
		}
	}
	return
}
