package c04

import (
	"bytes"
	"encoding/json"
	"fmt"
	"io"
	"math/rand"
	"net/http"
	"regexp"
	"sort"
	"strings"

	"github.com/nyaruka/gocommon/httpx"
	"github.com/nyaruka/gocommon/random"
	"github.com/nyaruka/goflow/assets"
	"github.com/nyaruka/goflow/excellent/types"
	"github.com/nyaruka/goflow/flows"
	"github.com/nyaruka/goflow/flows/triggers"
	"verif/mc"
	"verif/world"
)

// Sub-space (v): templates evaluated in REAL run contexts, i.e. contexts the engine itself built from a
// history: a flow calls a webhook / resthook, the answer comes from a JSON-document alphabet, the run
// reaches a wait, the host either keeps the session or marshals it and reads it back, and the contact
// replies. In every such context a template corpus is evaluated that is derived at run time from the
// context itself (every property path of the run's root context down to a depth, under every form of
// CtxForms): directly through run.EvaluateTemplate* on every run of the waiting session, and by the
// engine (one send_email per template, the template being the body) right after the call and again after
// the resume.

// CtxAnswer is one answer of the HTTP layer to the flow's webhook / resthook call.
type CtxAnswer struct {
	Label  string
	Status int // 0 = connection error
	Body   string
}

// ctxNested is an object document with null members, a default, and a key that is not a name.
const ctxNested = `{"a":[1,{"b":null},"x"],"n":1.5,"s":"x","t":true,"nul":null,"o":{"__default__":"d","k":[]},"Content-Type":null}`

// CtxAnswers is the answer alphabet: every kind of JSON document at its smallest (the values that are
// nil / falsy / empty once converted), documents that only become JSON after cleaning, one too long to
// be saved with a result, bodies that are not JSON, error statuses and a connection error. (JSON numbers
// with a huge exponent are sub-space (iv).)
var CtxAnswers = []CtxAnswer{
	{"j:null", 200, `null`},
	{"j:null+blanks", 200, " null\r\n"},
	{"j:true", 200, `true`},
	{"j:false", 200, `false`},
	{"j:0", 200, `0`},
	{"j:empty-text", 200, `""`},
	{"j:[]", 200, `[]`},
	{"j:{}", 200, `{}`},
	{"j:[null]", 200, `[null]`},
	{"j:nested", 200, ctxNested},
	{"j:null-after-cleaning", 200, "\x00null\xff"},
	{"j:text-over-10000-bytes", 200, `"` + strings.Repeat("ab1 ", 2600) + `"`},
	{"x:empty-body", 200, ``},
	{"x:not-json", 200, `not json`},
	{"x:truncated-json", 200, `{"a":`},
	{"e:400+json", 400, `{"errors":["bad"]}`},
	{"e:410+null", 410, `null`},
	{"e:connection-error", 0, ``},
}

var ctxAnswerIndex = func() map[string]int {
	m := map[string]int{}
	for i, a := range CtxAnswers {
		m[a.Label] = i
	}
	return m
}()

// ctxRequestor answers every HTTP request with the case's answer.
type ctxRequestor struct {
	ans  CtxAnswer
	hits int
}

func (h *ctxRequestor) Do(client *http.Client, request *http.Request) (*http.Response, error) {
	h.hits++
	if h.ans.Status == 0 {
		return nil, fmt.Errorf("unable to connect to server")
	}
	return &http.Response{
		Request: request, Status: fmt.Sprintf("%d %s", h.ans.Status, http.StatusText(h.ans.Status)), StatusCode: h.ans.Status,
		Proto: "HTTP/1.0", ProtoMajor: 1, ProtoMinor: 0,
		Header:        http.Header{"Content-Type": []string{"application/json"}, "X-Verif-A": []string{"1"}},
		Body:          io.NopCloser(bytes.NewReader([]byte(h.ans.Body))),
		ContentLength: int64(len(h.ans.Body)),
	}, nil
}

// CtxFlows are the flow shapes; each is [call] -> [evaluate corpus] -> [wait for a message] -> [evaluate
// corpus]. Together they make every root of the run context non-nil somewhere.
//
//	webhook            call_webhook saved as a result; msg trigger
//	webhook-noresult   call_webhook without a result name; manual trigger; the contact has an open ticket
//	resthook           call_resthook saved as a result; flow_action trigger (parent run summary)
//	webhook-in-child   the parent enters a child flow that does the above; the parent evaluates the corpus
//	                   again after the child has completed
var CtxFlows = []string{"webhook", "webhook-noresult", "resthook", "webhook-in-child"}

// ctxCorpus is what the "c04eval" action set renders: one send_email per template (an action that
// evaluates its template through run.EvaluateTemplate and changes nothing in the context).
var ctxCorpus []string

func init() {
	world.ActionSets["c04call:webhook"] = func(f, i int) []any {
		return []any{world.J{"uuid": world.ActUUID(f, i, 0), "type": "call_webhook", "method": "GET", "url": "http://example.com/lookup", "result_name": "wh"}}
	}
	world.ActionSets["c04call:webhook-noresult"] = func(f, i int) []any {
		return []any{world.J{"uuid": world.ActUUID(f, i, 0), "type": "call_webhook", "method": "POST", "url": "http://example.com/lookup", "body": "@(json(contact.name))"}}
	}
	world.ActionSets["c04call:resthook"] = func(f, i int) []any {
		return []any{world.J{"uuid": world.ActUUID(f, i, 0), "type": "call_resthook", "resthook": "new-registration", "result_name": "rh"}}
	}
	world.ActionSets["c04eval"] = func(f, i int) []any {
		acts := make([]any, 0, len(ctxCorpus))
		for a, t := range ctxCorpus {
			acts = append(acts, world.J{"uuid": world.ActUUID(f, i, a), "type": "send_email", "addresses": []any{"a@example.com"}, "subject": "s", "body": t})
		}
		return acts
	}
}

// ctxRoot builds the world of a flow shape; evalNodes are the (flow, node) pairs that evaluate the corpus.
func ctxRoot(flow string) (root *world.Root, evalNodes map[string]bool, err error) {
	body := func(call string) world.FlowSpec {
		return world.FlowSpec{Nodes: []world.Node{
			{Kind: "A:c04call:" + call, Dests: []int{1}},
			{Kind: "A:c04eval", Dests: []int{2}},
			{Kind: "W", Dests: []int{3, 3}},
			{Kind: "A:c04eval", Dests: []int{-1}},
		}}
	}
	root = &world.Root{TrigMsg: "hello 12 a", Env: RunContextRoot().Env}
	evalNodes = map[string]bool{}
	main := 0
	switch flow {
	case "webhook":
		root.Trigger = "msg"
		root.Flows = &world.FlowSet{Flows: []world.FlowSpec{body("webhook")}}
	case "webhook-noresult":
		root.Trigger = "manual"
		root.Flows = &world.FlowSet{Flows: []world.FlowSpec{body("webhook-noresult")}}
		c := world.DefaultContact()
		c["ticket"] = world.J{"uuid": world.UUID("ticket-0"), "topic": world.J{"uuid": world.TopicA, "name": "General"}, "assignee": world.J{"email": "bob@nyaruka.com", "name": "Bob"}}
		root.Contact = c
	case "resthook":
		root.Trigger = "flow_action"
		root.Flows = &world.FlowSet{Flows: []world.FlowSpec{body("resthook")}}
	case "webhook-in-child":
		root.Trigger = "msg"
		parent := world.FlowSpec{Nodes: []world.Node{{Kind: "Eo", Dests: []int{1}}, {Kind: "A:c04eval", Dests: []int{-1}}}}
		root.Flows = &world.FlowSet{Flows: []world.FlowSpec{parent, body("webhook")}}
		evalNodes[world.NodeUUID(0, 1)] = true
		main = 1
	default:
		return nil, nil, fmt.Errorf("unknown context flow %q", flow)
	}
	evalNodes[world.NodeUUID(main, 1)] = true
	evalNodes[world.NodeUUID(main, 3)] = true
	return root, evalNodes, nil
}

// ctxExec is a live execution of a context root (world.Root.Start with this package's HTTP layer).
type ctxExec struct {
	sa      flows.SessionAssets
	eng     flows.Engine
	session flows.Session
	sprint  flows.Sprint
	err     error
	http    *ctxRequestor
}

// ctxStart resets the seams, installs the answer and runs the first sprint under a guard.
func ctxStart(root *world.Root, ans CtxAnswer) (x *ctxExec, panicked string, err error) {
	world.Reset()
	x = &ctxExec{http: &ctxRequestor{ans: ans}}
	httpx.SetRequestor(x.http)
	x.sa, _, err = world.BuildAssets(root.AssetDoc())
	if err != nil {
		return nil, "", fmt.Errorf("assets: %w", err)
	}
	tj, _ := json.Marshal(root.TriggerJSON())
	x.eng = world.NewEngine(root.Opt)
	trig, err := triggers.ReadTrigger(x.sa, tj, assets.IgnoreMissing)
	if err != nil {
		return nil, "", fmt.Errorf("trigger: %w", err)
	}
	panicked = mc.Guard(func() { x.session, x.sprint, x.err = x.eng.NewSession(x.sa, trig) })
	return x, panicked, nil
}

// restart marshals the session and reads it back (what a host does between a contact's messages).
func (x *ctxExec) restart() error {
	b, err := json.Marshal(x.session)
	if err != nil {
		return fmt.Errorf("marshal: %w", err)
	}
	s, err := x.eng.ReadSession(x.sa, b, assets.IgnoreMissing)
	if err != nil {
		return fmt.Errorf("read: %w", err)
	}
	x.session = s
	return nil
}

func (x *ctxExec) resume() (panicked string) {
	res := world.MakeResume("msg:a")
	return mc.Guard(func() { x.sprint, x.err = x.session.Resume(res) })
}

// evalSteps counts the steps of all runs that are on a corpus-evaluating node.
func (x *ctxExec) evalSteps(evalNodes map[string]bool) int {
	n := 0
	if x.session == nil {
		return 0
	}
	for _, run := range x.session.Runs() {
		for _, st := range run.Path() {
			if evalNodes[string(st.NodeUUID())] {
				n++
			}
		}
	}
	return n
}

// CtxForm is one way of using a context path in a template.
type CtxForm struct {
	Name string
	Gen  func(p string, dotted bool) string
}

// CtxForms are the forms every context path is put under: the plain reference (identifier syntax when
// the path is dotted names), rendering as JSON (walks everything below the path), the usual guard
// against a missing value, a lookup of a property that does not exist, an index, a count, conversion
// to text and a comparison with itself.
var CtxForms = []CtxForm{
	{"ref", func(p string, dotted bool) string {
		if dotted {
			return "@" + p
		}
		return "@(" + p + ")"
	}},
	{"json", func(p string, _ bool) string { return "@(json(" + p + "))" }},
	{"default", func(p string, _ bool) string { return `@(default(` + p + `, "d"))` }},
	{"missing-property", func(p string, _ bool) string { return "@(" + p + ".zz)" }},
	{"index", func(p string, _ bool) string { return "@(" + p + "[0])" }},
	{"count", func(p string, _ bool) string { return "@(count(" + p + "))" }},
	{"concat", func(p string, _ bool) string { return `@(` + p + ` & "")` }},
	{"equals", func(p string, _ bool) string { return "@(" + p + " = " + p + ")" }},
}

// CtxDepth is the depth of the property paths (1 = the roots).
func CtxDepth(tier string) int {
	if tier == "thorough" {
		return 4
	}
	return 3
}

var ctxNameRE = regexp.MustCompile(`^[A-Za-z_][A-Za-z0-9_]*$`)
var ctxIntRE = regexp.MustCompile(`^[0-9]+$`)

// ctxPath is one property path of a context with its rendering as an expression.
type ctxPath struct {
	expr   string
	dotted bool
}

// ctxWalk lists every property path of the run's root context down to the given depth, reading the
// property names from the real (lazy) context objects. A context object that panics while it is being
// resolved is not descended into: the templates over the path that leads to it meet the same panic.
func ctxWalk(run flows.Run, depth int, nonNil map[string]bool) []ctxPath {
	env := run.Session().MergedEnvironment()
	var root *types.XObject
	var names []string
	if p := mc.Guard(func() {
		root = types.NewXObject(run.RootContext(env))
		names = root.Properties()
	}); p != "" {
		return nil
	}
	var out []ctxPath
	var rec func(v types.XValue, path string, dotted bool, d int)
	rec = func(v types.XValue, path string, dotted bool, d int) {
		out = append(out, ctxPath{path, dotted})
		if d >= depth {
			return
		}
		obj, ok := v.(*types.XObject)
		if !ok || obj == nil {
			return
		}
		var props []string
		if p := mc.Guard(func() { props = obj.Properties() }); p != "" {
			return
		}
		for _, n := range props {
			var pv types.XValue
			if p := mc.Guard(func() { pv, _ = obj.Get(n) }); p != "" {
				continue
			}
			switch {
			case ctxNameRE.MatchString(n):
				rec(pv, path+"."+n, dotted, d+1)
			case ctxIntRE.MatchString(n):
				rec(pv, path+"."+n, false, d+1)
			default:
				q, _ := json.Marshal(n)
				rec(pv, path+"["+string(q)+"]", false, d+1)
			}
		}
	}
	for _, n := range names {
		v, _ := root.Get(n)
		if !types.IsNil(v) {
			nonNil[n] = true
		}
		rec(v, n, true, 1)
	}
	return out
}

// ctxTemplates puts every path under every form.
func ctxTemplates(paths []ctxPath) []string {
	out := make([]string, 0, len(paths)*len(CtxForms))
	for _, p := range paths {
		for _, f := range CtxForms {
			out = append(out, f.Gen(p.expr, p.dotted))
		}
	}
	return out
}

func ctxUnion(sets ...[]string) []string {
	seen := map[string]bool{}
	var out []string
	for _, s := range sets {
		for _, t := range s {
			if !seen[t] {
				seen[t] = true
				out = append(out, t)
			}
		}
	}
	return out
}

// restoreSeams gives the random source back to the run of the other sub-spaces.
func (r *rt) restoreSeams() {
	if r.draws != nil {
		random.SetGenerator(rand.New(r.draws))
	}
}

// evalOnRun evaluates one template through the value and the text entry point of a run (the third,
// run.EvaluateTemplate, is the one the engine uses for the corpus in the flow).
func (r *rt) evalOnRun(run flows.Run, s string) []tplResult {
	escape := func(x string) string { return strings.ReplaceAll(x, "a", `\a`) }
	countErrs := func(n *int) flows.EventCallback {
		return func(e flows.Event) {
			if e.Type() == "error" {
				*n++
			}
		}
	}
	results := make([]tplResult, 0, 2)
	do := func(entry string, f func() (string, bool, int)) {
		tr := tplResult{entry: entry, isRun: true}
		tr.p = mc.Guard(func() { tr.cls, tr.ok, tr.nErr = f() })
		results = append(results, tr)
	}
	{
		// the value is rendered the way a result / event would: a lazy context object that cannot be
		// resolved crashes the host one step later (its own stage in the key)
		tr := tplResult{entry: "run.EvaluateTemplateValue", isRun: true}
		var v types.XValue
		tr.p = mc.Guard(func() {
			n := 0
			v, tr.ok = run.EvaluateTemplateValue(s, countErrs(&n))
			tr.nErr, tr.cls = n, classOf(v)
		})
		if _, isErr := v.(*types.XError); tr.p == "" && !isErr {
			env := run.Session().MergedEnvironment()
			if p := mc.Guard(func() { types.ToXText(env, v); types.ToXJSON(v) }); p != "" {
				tr.p, tr.stage = p, ":render-value"
			}
		}
		results = append(results, tr)
	}
	do("run.EvaluateTemplateText", func() (string, bool, int) {
		n := 0
		_, ok := run.EvaluateTemplateText(s, escape, false, countErrs(&n))
		return "text", ok, n
	})
	return results
}

// ctxDescribe names a context in messages.
func ctxDescribe(cs Case) string {
	how := "session kept in memory"
	if cs.Restart {
		how = "session marshalled and read back"
	}
	return fmt.Sprintf("flow %s, HTTP answer %s, %s before the resume", cs.Flow, cs.Body, how)
}

// execCtx executes one context: (flow, answer, restart). With cs.S set only that template is evaluated
// (replays); otherwise the corpus derived from the context.
func (r *rt) execCtx(cs Case, acc *delta, wantSample bool) error {
	defer r.restoreSeams()
	ai, ok := ctxAnswerIndex[cs.Body]
	if !ok {
		return fmt.Errorf("unknown HTTP answer %q", cs.Body)
	}
	ans := CtxAnswers[ai]
	root, evalNodes, err := ctxRoot(cs.Flow)
	if err != nil {
		return err
	}
	depth := CtxDepth(r.tier)
	acc.Counters["ctx_contexts"]++
	acc.Facts["ctxbody:"+cs.Body]++
	acc.Facts["ctxflow:"+cs.Flow]++
	if cs.Restart {
		acc.Facts["ctx:session-read-back"]++
	} else {
		acc.Facts["ctx:session-kept"]++
	}
	nonNil := map[string]bool{}
	one := cs
	panicViol := func(s, where, stage, p string) {
		one.S = s
		acc.Outcomes["ctx:panic"]++
		acc.violation(panicKey("tpl", "", "run-context"+stage, p), fmt.Sprintf("panic evaluating template %q %s (%s)\n%s", trimTo(s, 300), where, ctxDescribe(cs), p), one)
	}

	// phase 1: the flow without the corpus - the contexts to derive the corpus from, and the direct
	// evaluation on every run of the waiting session
	ctxCorpus = nil
	x, p, err := ctxStart(root, ans)
	if err != nil {
		return err
	}
	if p != "" {
		panicViol("", "in the first sprint of the flow without corpus", "", p)
		return nil
	}
	if x.err != nil {
		return fmt.Errorf("first sprint: %w", x.err)
	}
	if x.session.Status() != flows.SessionStatusWaiting {
		return fmt.Errorf("first sprint: expected a waiting session, got %s", x.session.Status())
	}
	if x.http.hits == 0 {
		return fmt.Errorf("first sprint made no HTTP request")
	}
	if cs.Restart {
		if err := x.restart(); err != nil {
			return err
		}
	}
	var direct, inflow [][]string
	for ri, run := range x.session.Runs() {
		// what this context is made of
		switch wh := run.Webhook(); {
		case wh == nil:
			acc.Facts["ctx:webhook:none"]++
		case wh.Recreated:
			acc.Facts["ctx:webhook:recreated-from-result"]++
			if strings.TrimSpace(string(wh.ResponseJSON)) == "null" {
				acc.Facts["ctx:webhook:recreated-from-result:json-null"]++
			}
		default:
			acc.Facts["ctx:webhook:live-call"]++
			if wh.ResponseCleaned {
				acc.Facts["ctx:webhook:live-call:cleaned"]++
			}
		}
		for _, res := range run.Results() {
			switch {
			case res.Extra == nil:
				acc.Facts["ctx:result-extra:none"]++
			case strings.TrimSpace(string(res.Extra)) == "null":
				acc.Facts["ctx:result-extra:json-null"]++
			default:
				acc.Facts["ctx:result-extra:json"]++
			}
		}
		paths := ctxWalk(run, depth, nonNil)
		acc.Maxes["ctx_paths_in_one_context"] = max(acc.Maxes["ctx_paths_in_one_context"], int64(len(paths)))
		tpls := ctxTemplates(paths)
		inflow = append(inflow, tpls)
		if cs.S != "" {
			tpls = []string{cs.S}
		}
		direct = append(direct, tpls)
		where := fmt.Sprintf("directly on run %d of the waiting session", ri)
		for _, s := range tpls {
			acc.Counters["evaluations"]++
			acc.Counters["distinct_nontrivial"]++
			acc.Counters["ctx_templates_direct"]++
			for _, tr := range r.evalOnRun(run, s) {
				if tr.p != "" {
					panicViol(s, where+" through "+tr.entry, tr.stage, tr.p)
					continue
				}
				one.S = s
				if tr.ok && tr.nErr > 0 {
					acc.violation("events:"+tr.entry+":reported-success-but-logged-error-event", fmt.Sprintf("template %q through %s returned ok=true and logged %d error event(s) (%s)", trimTo(s, 300), tr.entry, tr.nErr, ctxDescribe(cs)), one)
				}
				if !tr.ok && tr.nErr == 0 {
					acc.violation("events:"+tr.entry+":failed-without-error-event", fmt.Sprintf("template %q through %s returned ok=false without an error event (%s)", trimTo(s, 300), tr.entry, ctxDescribe(cs)), one)
				}
				o := "ok"
				if !tr.ok {
					o = "error"
				}
				acc.Outcomes["ctx:"+tr.entry+":"+o]++
				if tr.entry == "run.EvaluateTemplateValue" {
					acc.Outcomes["ctx:value:"+tr.cls]++
				}
			}
		}
	}
	// the contexts after the reply (input and resume are set, the child has completed)
	if p := x.resume(); p != "" {
		panicViol("", "in the resumed sprint of the flow without corpus", "", p)
		return nil
	}
	if x.err != nil {
		return fmt.Errorf("resumed sprint: %w", x.err)
	}
	for _, run := range x.session.Runs() {
		inflow = append(inflow, ctxTemplates(ctxWalk(run, depth, nonNil)))
	}
	for n := range nonNil {
		acc.Facts["ctx:root-not-nil:"+n]++
	}

	// phase 2: the same history with the corpus evaluated by the engine, right after the call (the
	// webhook of the context is the live call) and after the reply (live, or re-created from the result)
	corpus := ctxUnion(inflow...)
	if cs.S != "" {
		corpus = []string{cs.S}
	}
	acc.Maxes["ctx_templates_in_one_flow_node"] = max(acc.Maxes["ctx_templates_in_one_flow_node"], int64(len(corpus)))
	ctxCorpus = corpus
	defer func() { ctxCorpus = nil }()
	x, p, err = ctxStart(root, ans)
	if err != nil {
		return err
	}
	if p != "" {
		panicViol(cs.S, fmt.Sprintf("among the %d templates evaluated by the engine in the sprint of the call", len(corpus)), "", p)
		return nil
	}
	if x.err != nil {
		return fmt.Errorf("first sprint with corpus: %w", x.err)
	}
	if x.session.Status() != flows.SessionStatusWaiting {
		return fmt.Errorf("first sprint with corpus: expected a waiting session, got %s", x.session.Status())
	}
	steps1 := x.evalSteps(evalNodes)
	if steps1 == 0 {
		return fmt.Errorf("first sprint with corpus did not reach the evaluating node")
	}
	acc.Facts["ctx:engine-evaluated-corpus:sprint-of-the-call"]++
	ctxCountInflow(acc, x.sprint, steps1*len(corpus))
	if cs.Restart {
		if err := x.restart(); err != nil {
			return err
		}
	}
	if p := x.resume(); p != "" {
		panicViol(cs.S, fmt.Sprintf("among the %d templates evaluated by the engine in the resumed sprint", len(corpus)), "", p)
		return nil
	}
	if x.err != nil {
		return fmt.Errorf("resumed sprint with corpus: %w", x.err)
	}
	steps2 := x.evalSteps(evalNodes) - steps1
	if steps2 <= 0 {
		return fmt.Errorf("resumed sprint with corpus did not reach the evaluating node")
	}
	acc.Facts["ctx:engine-evaluated-corpus:resumed-sprint"]++
	ctxCountInflow(acc, x.sprint, steps2*len(corpus))
	acc.Outcomes["ctx:session:"+string(x.session.Status())]++

	if wantSample && len(acc.Samples) == 0 && cs.S == "" && len(corpus) > 0 {
		acc.Samples = append(acc.Samples, map[string]any{"context": ctxDescribe(cs), "templates_evaluated_by_the_engine_per_node": len(corpus),
			"templates_evaluated_directly": len(ctxUnion(direct...)), "examples": []string{corpus[0], corpus[len(corpus)/2], corpus[len(corpus)-1]}})
	}
	return nil
}

// ctxCountInflow accounts for n templates evaluated by the engine in a sprint.
func ctxCountInflow(acc *delta, sprint flows.Sprint, n int) {
	acc.Counters["evaluations"] += int64(n)
	acc.Counters["distinct_nontrivial"] += int64(n)
	acc.Counters["ctx_templates_by_engine"] += int64(n)
	for _, e := range sprint.Events() {
		switch e.Type() {
		case "email_sent":
			acc.Outcomes["ctx:engine:email_sent"]++
		case "error":
			acc.Outcomes["ctx:engine:error-event"]++
		case "warning":
			acc.Outcomes["ctx:engine:warning-event"]++
		}
	}
}

// ctxGroups lists the groups of sub-space (v): one per flow x answer, its two cases are the session
// kept in memory and the session read back.
func ctxGroups() []Group {
	var gs []Group
	for _, f := range CtxFlows {
		for _, a := range CtxAnswers {
			gs = append(gs, Group{Kind: "ctx", Name: f, Body: a.Label, Prefix: -1})
		}
	}
	return gs
}

// ctxGuards are the vacuity guards of sub-space (v).
func ctxGuards(r *mc.Result, tier string, runaway int64) []string {
	var f []string
	var expected int64
	for _, g := range ctxGroups() {
		expected += int64(g.Size(tier))
	}
	if got := r.Counters["ctx_contexts"]; got > expected || expected-got > runaway {
		f = append(f, fmt.Sprintf("run contexts executed %d, enumerated %d", got, expected))
	}
	facts := []string{
		"group:ctx", "ctx:session-kept", "ctx:session-read-back",
		"ctx:webhook:none", "ctx:webhook:live-call", "ctx:webhook:live-call:cleaned", "ctx:webhook:recreated-from-result", "ctx:webhook:recreated-from-result:json-null",
		"ctx:result-extra:none", "ctx:result-extra:json", "ctx:result-extra:json-null",
		"ctx:engine-evaluated-corpus:sprint-of-the-call", "ctx:engine-evaluated-corpus:resumed-sprint",
	}
	for _, a := range CtxAnswers {
		facts = append(facts, "ctxbody:"+a.Label)
	}
	for _, fl := range CtxFlows {
		facts = append(facts, "ctxflow:"+fl)
	}
	for _, n := range ctxRoots() {
		facts = append(facts, "ctx:root-not-nil:"+n)
	}
	for _, fact := range facts {
		if r.Facts[fact] == 0 {
			f = append(f, "never observed: "+fact)
		}
	}
	for _, o := range []string{"ctx:run.EvaluateTemplateText:ok", "ctx:run.EvaluateTemplateText:error", "ctx:run.EvaluateTemplateValue:ok",
		"ctx:value:null", "ctx:value:error", "ctx:value:object", "ctx:value:array", "ctx:engine:email_sent", "ctx:engine:error-event", "ctx:engine:warning-event", "ctx:session:completed"} {
		if r.Outcomes[o] == 0 {
			f = append(f, "outcome never observed: "+o)
		}
	}
	if r.Counters["ctx_templates_direct"] < 8*15*expected || r.Counters["ctx_templates_by_engine"] < 2*8*15*expected {
		if runaway == 0 {
			f = append(f, fmt.Sprintf("templates in run contexts: %d directly, %d by the engine - fewer than every form over every root in every context", r.Counters["ctx_templates_direct"], r.Counters["ctx_templates_by_engine"]))
		}
	}
	return f
}

// ctxRoots are the names every one of which must have been non-nil in some context.
func ctxRoots() []string {
	out := append([]string{}, flows.RunContextTopLevels...)
	sort.Strings(out)
	return out
}
