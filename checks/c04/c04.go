// Package c04: (not built yet)
package c04
