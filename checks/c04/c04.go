// Package c04: expression and template evaluation is total (never panics, always returns in bounded
// time and memory; failures are error values and error events).
package c04

import (
	"encoding/json"
	"fmt"
	"os"
	"sort"
	"strings"
	"time"

	"verif/mc"
)

// confirmed is a runaway class confirmed at the full limit in this group.
type confirmed struct {
	sig Sig
	key string
}

// confRes is the result of running one case alone under the full limit.
type confRes struct {
	done   bool
	fail   *failure
	err    error
	deltas []*delta
	used   time.Duration
}

// provisional is a case that exceeded the short limit and is being re-run alone, in the background,
// under the full limit. Until its verdict is known, later cases of the same signature class that also
// exceed the short limit are parked in cut: if the class is confirmed they are counted under its key,
// otherwise they are re-run.
type provisional struct {
	sig Sig
	idx int
	cs  Case
	cut []int
	res chan confRes
}

// orchestrator runs this shard's groups through isolated children.
type orchestrator struct {
	c     *mc.Ctx
	lim   limits
	child *child
	sem   chan struct{} // bounds the background confirmations
}

func (o *orchestrator) ensureChild() error {
	if o.child != nil {
		return nil
	}
	ch, err := startChild(o.c.Tier)
	if err != nil {
		return err
	}
	o.child = ch
	o.c.Inc("child_processes_started")
	return nil
}

func (o *orchestrator) merge(d *delta) {
	c := o.c
	for k, v := range d.Counters {
		c.Add(k, v)
	}
	for k, v := range d.Outcomes {
		addOutcome(c, k, v)
	}
	for k, v := range d.Facts {
		addFact(c, k, v)
	}
	for k, v := range d.Maxes {
		c.Max(k, v)
	}
	for _, v := range d.Viol {
		for i := int64(0); i < v.Count; i++ {
			c.Violation(v.Key, v.What, map[string]any{"risky": mc.JSON(v.Case)})
		}
	}
	for _, s := range d.Samples {
		c.Sample(s)
	}
}

// addOutcome / addFact add n occurrences (mc.Ctx only exposes increments).
func addOutcome(c *mc.Ctx, k string, n int64) {
	for ; n > 0; n-- {
		c.Outcome(k)
	}
}

func addFact(c *mc.Ctx, k string, n int64) {
	for ; n > 0; n-- {
		c.Fact(k)
	}
}

// runawayKeyName is the function/operator part of a runaway key.
func runawayKeyName(g Group) string {
	switch g.Kind {
	case "call":
		return g.Name
	case "form":
		return keyName("form", g.Name)
	case "xexp":
		return "json-number"
	case "tokens":
		return "expr"
	case "stress":
		return "stress"
	case "ctx":
		return "run-context"
	}
	return "template"
}

// confirmCase runs one case alone in a fresh child under the given CPU limit.
func confirmCase(tier string, g Group, cs Case, limit time.Duration) confRes {
	ch, err := startChild(tier)
	if err != nil {
		return confRes{err: err}
	}
	var r confRes
	r.done, r.fail, r.used, r.err = ch.driveCPU(&request{Group: g, One: &cs}, func(d *delta) { r.deltas = append(r.deltas, d) }, func(int) time.Duration { return limit })
	if r.done {
		ch.close()
	} else {
		ch.discard()
	}
	return r
}

func (o *orchestrator) runGroup(g Group) error {
	c := o.c
	size := g.Size(c.Tier)
	dec := newDecoder(g, c.Tier)
	positional := g.Positional()
	var conf []confirmed
	unpredictedKey := "runaway:" + runawayKeyName(g) + ":unpredicted"

	coveringConf := func(sig Sig) *confirmed {
		for i := range conf {
			if conf[i].sig.Covers(sig, positional) {
				return &conf[i]
			}
		}
		return nil
	}
	recordRunaway := func(key string, cs Case, fail *failure, first bool) {
		replay := map[string]any{"risky": mc.JSON(cs)}
		c.Inc("evaluations")
		c.Inc("distinct_nontrivial")
		if g.Danger {
			c.Inc("cases_predicted_dangerous")
		} else {
			c.Inc("cases_batch")
		}
		if !first {
			c.Inc("runaway_cases_in_an_already_confirmed_class")
			c.Violation(key, "", replay)
			return
		}
		what := "hang"
		if fail.kind == "out-of-memory" {
			what = fmt.Sprintf("exhausted the %d GiB memory cap (crash of the host)", MemCapBytes>>30)
			c.Outcome("runaway:out-of-memory")
		} else {
			c.Outcome("runaway:cpu-limit")
		}
		c.Inc("runaway_cases_confirmed_at_the_full_limit")
		c.Violation(key, fmt.Sprintf("evaluation does not return in bounded time/memory: %s\ncase: %s\n%s", what, mc.JSON(cs), trimTo(fail.detail, 1200)), replay)
	}
	recordFatal := func(cs Case, fail *failure) {
		c.Inc("evaluations")
		c.Inc("distinct_nontrivial")
		c.Outcome("fatal:" + fail.kind)
		c.Inc("fatal_cases")
		first := fail.detail
		if i := strings.Index(first, "\n"); i >= 0 {
			first = first[:i]
		}
		c.Violation("fatal:"+runawayKeyName(g)+":"+first, fmt.Sprintf("evaluation killed the process (%s)\ncase: %s\n%s", fail.kind, mc.JSON(cs), trimTo(fail.detail, 1500)), map[string]any{"risky": mc.JSON(cs)})
	}

	var only []int // nil: the whole group; otherwise the indices to (re-)run in this pass
	for pass := 0; ; pass++ {
		var provs []*provisional
		emptyProvs := 0
		coveringProv := func(sig Sig) *provisional {
			for _, p := range provs {
				if p.sig.Covers(sig, positional) {
					return p
				}
			}
			if sig.Empty() && emptyProvs >= 2 {
				// unpredicted slow cases: at most two are confirmed at a time per group
				for i := len(provs) - 1; i >= 0; i-- {
					if provs[i].sig.Empty() {
						return provs[i]
					}
				}
			}
			return nil
		}
		from, upto := 0, -1
		var skip []int
		remaining := only
		harnessFailures := 0
		for {
			if only == nil && from >= size {
				break
			}
			if only != nil && len(remaining) == 0 {
				break
			}
			if err := o.ensureChild(); err != nil {
				return err
			}
			req := &request{Group: g, From: from, Skip: skip, Only: remaining, WantSample: c.WantSample()}
			cpuBefore := o.child.cpu()
			cpuKey := "cpu_ms:" + g.Kind
			if g.Danger {
				cpuKey += ":dangerous"
			}
			done, fail, err := o.child.drive(req, func(d *delta) {
				o.merge(d)
				if d.Upto > upto {
					upto = d.Upto
				}
			}, func(int) time.Duration {
				if g.Kind == "ctx" {
					// a context is a whole history with its corpus, not one small evaluation
					return o.lim.full
				}
				return o.lim.short
			})
			if used := o.child.cpu() - cpuBefore; used > 0 {
				c.Add(cpuKey, used.Milliseconds())
			} else if fail != nil {
				c.Add("cpu_ms:cases_cut_at_the_short_limit", fail.cpu.Milliseconds())
			}
			if done {
				break
			}
			o.child.discard()
			o.child = nil
			if err != nil {
				harnessFailures++
				if harnessFailures > 3 {
					return err
				}
			} else if fail.idx <= upto {
				// the case had already been reported when the child stopped: nothing to attribute
				fail = nil
			} else {
				dc := dec.at(fail.idx)
				cs := dec.toCase(dc)
				sig := append(Sig{}, dc.sig...)
				switch {
				case fail.kind != "cpu-limit" && fail.kind != "out-of-memory":
					recordFatal(cs, fail)
				case coveringConf(sig) != nil:
					recordRunaway(coveringConf(sig).key, cs, fail, false)
				case coveringProv(sig) != nil:
					p := coveringProv(sig)
					p.cut = append(p.cut, fail.idx)
				default:
					// exceeded the short limit (or died) and no known class explains it: re-run it alone
					// under the full limit in the background and carry on
					p := &provisional{sig: sig, idx: fail.idx, cs: cs, res: make(chan confRes, 1)}
					provs = append(provs, p)
					if sig.Empty() {
						emptyProvs++
					}
					c.Inc("cases_rerun_alone_under_the_full_limit")
					go func() {
						o.sem <- struct{}{}
						r := confirmCase(c.Tier, g, cs, o.lim.full)
						<-o.sem
						p.res <- r
					}()
				}
				skip = append(skip, fail.idx)
			}
			from = upto + 1
			if only != nil {
				var rest []int
				for _, i := range remaining {
					if i > upto && (fail == nil || i != fail.idx) {
						rest = append(rest, i)
					}
				}
				remaining = rest
			}
		}
		// verdicts of the cases re-run alone
		var rerun []int
		for _, p := range provs {
			r := <-p.res
			switch {
			case r.err != nil:
				return fmt.Errorf("confirming %s: %w", mc.JSON(p.cs), r.err)
			case r.done:
				for _, d := range r.deltas {
					o.merge(d)
				}
				c.Inc("slow_cases_that_completed_under_the_full_limit")
				c.Add("cpu_ms:reruns_under_the_full_limit", r.used.Milliseconds())
				c.Max("slowest_completed_case_cpu_ms", r.used.Milliseconds())
				if r.used > 2*time.Second {
					c.Note(fmt.Sprintf("slow case completed after %.1f s of CPU: %s", r.used.Seconds(), trimTo(mc.JSON(p.cs), 300)))
				}
				rerun = append(rerun, p.cut...)
			case r.fail.kind == "cpu-limit" || r.fail.kind == "out-of-memory":
				key := unpredictedKey
				if !p.sig.Empty() {
					if cv := coveringConf(p.sig); cv != nil {
						key = cv.key // a sub-signature was confirmed meanwhile
					} else {
						key = "runaway:" + runawayKeyName(g) + ":" + p.sig.String(positional)
						conf = append(conf, confirmed{sig: p.sig, key: key})
					}
				}
				recordRunaway(key, p.cs, r.fail, true)
				c.Add("cpu_ms:reruns_under_the_full_limit", r.fail.cpu.Milliseconds())
				for _, i := range p.cut {
					recordRunaway(key, dec.toCase(dec.at(i)), r.fail, false)
				}
			default:
				recordFatal(p.cs, r.fail)
				rerun = append(rerun, p.cut...)
			}
		}
		if len(rerun) == 0 {
			return nil
		}
		if pass > 20 {
			return fmt.Errorf("group %s does not settle after %d passes", g.ID(), pass)
		}
		sort.Ints(rerun)
		only = rerun
	}
}

func run(c *mc.Ctx) {
	gs := Groups(c.Tier)
	assign := Assign(gs, c.Tier, c.NShards, c.Seed)
	shard := c.Shard
	if c.NShards <= 1 {
		shard = 0
	}
	o := &orchestrator{c: c, lim: limitsOf(c.Tier), sem: make(chan struct{}, 3)}
	defer func() { o.child.close() }()
	for n, gi := range assign[shard] {
		if c.Expired() {
			c.Cap(fmt.Sprintf("time budget reached; groups are visited in a fixed order and every group before the cap was enumerated completely (%d of this shard's %d groups done)", n, len(assign[shard])))
			break
		}
		g := gs[gi]
		if err := o.runGroup(g); err != nil {
			c.Violation("harness:"+g.Kind, "harness error in group "+g.ID()+": "+err.Error(), map[string]any{})
			return
		}
		c.Inc("groups")
		c.Fact("group:" + g.Kind)
		if g.caseAlpha() {
			c.Fact("group:" + g.Kind + ":case-variants")
		}
	}
}

// expectedCounts computes, from the registries and the tier's bounds, how many calls every function
// and form must have received and how many templates must have been evaluated.
func expectedCounts(tier string) (perFn map[string]int64, templates int64) {
	perFn = map[string]int64{}
	for _, g := range Groups(tier) {
		switch g.Kind {
		case "call":
			perFn["fn:"+g.Name] += int64(g.Size(tier))
		case "form":
			perFn["form:"+g.Name] += int64(g.Size(tier))
		case "chars":
			templates += int64(g.Size(tier))
		case "tokens":
			if !g.Danger {
				templates += int64(g.Size(tier)) // danger strings are the complement inside the same index space
			}
		case "stress":
			templates += int64(g.Size(tier))
		}
	}
	return
}

func guards(r *mc.Result, tier string) []string {
	var f []string
	perFn, templates := expectedCounts(tier)
	names := make([]string, 0, len(perFn))
	for k := range perFn {
		names = append(names, k)
	}
	sort.Strings(names)
	runaway := r.Counters["runaway_cases_confirmed_at_the_full_limit"] + r.Counters["runaway_cases_in_an_already_confirmed_class"] + r.Counters["fatal_cases"]
	var missing int64
	for _, k := range names {
		if got := r.Counters[k]; got > perFn[k] {
			f = append(f, fmt.Sprintf("%s executed %d times, more than the %d enumerated", k, got, perFn[k]))
		} else {
			missing += perFn[k] - got
			if got == 0 {
				f = append(f, fmt.Sprintf("%s was never called", k))
			}
		}
	}
	// a call that ran away is not counted by the child that died: the only calls allowed to be missing
	if missing > runaway {
		f = append(f, fmt.Sprintf("%d enumerated calls were not executed (only %d are accounted for as runaway cases)", missing, runaway))
	}
	if got := r.Counters["templates"]; got > templates || templates-got > runaway {
		f = append(f, fmt.Sprintf("templates evaluated %d, enumerated %d", got, templates))
	}
	if len(FunctionNames()) < 100 {
		f = append(f, fmt.Sprintf("only %d registered functions found", len(FunctionNames())))
	}
	for _, v := range Alphabet {
		if r.Facts["val:"+v.Label] == 0 {
			f = append(f, "alphabet value never used: "+v.Label)
		}
	}
	for _, v := range XExp {
		if tier == "thorough" || v.Label == "j:1e999999999" {
			if r.Facts["val:"+v.Label] == 0 && runaway == 0 {
				f = append(f, "alphabet value never used: "+v.Label)
			}
		}
	}
	// sub-space (vi): every value used, the pairs are what they are meant to be, and they reached code
	// that answered with something else than an error
	for _, v := range CaseVals {
		if r.Facts["val:"+v.Label] == 0 {
			f = append(f, "case-variant value never used: "+v.Label)
		}
	}
	f = append(f, casePairProblems()...)
	for _, fact := range []string{"group:call:case-variants", "group:form:case-variants", "case:returned-a-value", "case:router-test-matched"} {
		if r.Facts[fact] == 0 {
			f = append(f, "never observed: "+fact)
		}
	}
	for _, form := range Forms {
		// a() can only fail: no function of the alphabet takes zero arguments
		if form.Expr != "a()" && r.Counters["ok:form:"+form.Expr] == 0 {
			f = append(f, "form never produced a non-error value: "+form.Expr)
		}
	}
	for _, fact := range []string{
		"template_ok_via:Evaluator.Template", "template_error_via:Evaluator.Template",
		"template_ok_via:Evaluator.TemplateValue", "template_error_via:Evaluator.TemplateValue",
		"template_ok_via:run.EvaluateTemplate", "template_error_via:run.EvaluateTemplate",
		"template_ok_via:run.EvaluateTemplateValue", "template_error_via:run.EvaluateTemplateValue",
		"template_ok_via:run.EvaluateTemplateText", "template_error_via:run.EvaluateTemplateText",
		"group:call", "group:form", "group:xexp", "group:chars", "group:tokens", "group:stress",
	} {
		if r.Facts[fact] == 0 {
			f = append(f, "never observed: "+fact)
		}
	}
	f = append(f, ctxGuards(r, tier, runaway)...)
	for _, o := range []string{"call:error", "call:arity-error", "call:text", "call:number", "call:object", "call:array", "call:null", "form:number", "form:boolean", "form:error"} {
		if r.Outcomes[o] == 0 {
			f = append(f, "outcome never observed: "+o)
		}
	}
	return f
}

// runIsolated executes one case alone in a fresh child under the full limit of the tier and returns a
// description and whether the property was violated.
func runIsolated(tier string, cs Case) (string, bool) {
	r := confirmCase(tier, Group{}, cs, limitsOf(tier).full)
	if r.err != nil {
		return "harness: " + r.err.Error(), false
	}
	if r.fail != nil {
		return fmt.Sprintf("case %s\n%s: %s", mc.JSON(cs), r.fail.kind, trimTo(r.fail.detail, 1500)), true
	}
	outcomes := map[string]int64{}
	var viols []*viol
	for _, d := range r.deltas {
		viols = append(viols, d.Viol...)
		for k, v := range d.Outcomes {
			outcomes[k] += v
		}
	}
	desc := fmt.Sprintf("case %s\noutcomes %v (%.2f s of CPU)", mc.JSON(cs), outcomes, r.used.Seconds())
	for _, v := range viols {
		desc += fmt.Sprintf("\nPROBLEM %s: %s", v.Key, v.What)
	}
	return desc, len(viols) > 0
}

func parseRisky(raw []byte) (Case, error) {
	var doc struct {
		Risky string `json:"risky"`
	}
	var cs Case
	if err := json.Unmarshal(raw, &doc); err != nil || doc.Risky == "" {
		return cs, fmt.Errorf("bad replay artefact")
	}
	if err := json.Unmarshal([]byte(doc.Risky), &cs); err != nil {
		return cs, fmt.Errorf("bad case: %v", err)
	}
	return cs, nil
}

func replayFn(c *mc.Ctx, raw json.RawMessage) (string, bool) {
	cs, err := parseRisky(raw)
	if err != nil {
		return err.Error(), false
	}
	tier := c.Tier
	if os.Getenv("VERIF_TIER") == "" {
		tier = "thorough" // a replay judges by the 60 s limit
	}
	return runIsolated(tier, cs)
}

// single serves two purposes: "@serve:<shm>" turns the process into a case server (see child.go);
// anything else is a case description to execute alone (the driver's crash confirmation).
func single(c *mc.Ctx, desc string) string {
	if strings.HasPrefix(desc, servePrefix) {
		return serve(c.Tier, strings.TrimPrefix(desc, servePrefix))
	}
	var cs Case
	if err := json.Unmarshal([]byte(desc), &cs); err != nil {
		return "bad case: " + err.Error()
	}
	out, violated := runIsolated(c.Tier, cs)
	if violated {
		fmt.Println(out)
		os.Exit(1)
	}
	return out
}

func classify(desc, output string, hang bool) (string, string) {
	// only reached if the orchestrating worker itself dies, which no case can cause
	return "harness:worker:" + mc.Hash(desc), "the orchestrating worker died: " + output
}

func init() {
	nf, nt := 0, 0
	for _, f := range FunctionNames() {
		if f.Test {
			nt++
		} else {
			nf++
		}
	}
	mc.Register(&mc.Check{
		ID:    "C04",
		Level: "exploration",
		Rule: fmt.Sprintf("exhaustive enumeration on the real implementation, registries read at run time (%d functions + %d router tests found): "+
			"(i) every function of functions.XFUNCTIONS and test of cases.XTESTS called through XFunction.Call at every arity 0..5 under 2 environments with every tuple of a %d-value boundary alphabet (all values at arity <= 3; quick: a %d-value core at arity 4 and %d values at arity 5; thorough: all values at arity 4, the core at arity 5); every non-error result is also rendered as text and as JSON; "+
			"(ii) the %d operator / lookup / call forms of the expression tree on every pair (unary: every value) through Evaluator.Expression; "+
			"(iii) every template string of length <= 6 (thorough 7) over the %d-symbol alphabet, every string of <= %d tokens over a %d-token vocabulary inside @( ), and %d generated families of deep / long templates (<= 400 bytes), each through Evaluator.Template (with and without escaping), Evaluator.TemplateValue and run.EvaluateTemplate / EvaluateTemplateValue / EvaluateTemplateText of a real waiting run; "+
			"(iv) a webhook-JSON number with a huge exponent as an argument of every function and form; "+
			fmt.Sprintf("(vi) texts whose case mapping changes their UTF-8 length: %d pairs of texts that are equal ignoring case and differ in byte length (U+0130 / i, U+212A KELVIN SIGN / k, U+023A / U+2C65 - lower-casing shrinks and grows; alone, at the start and the end of a word, in a text of several words), an array of them, an object with such property names and a result with such category / intent names: every function and router test gets every tuple with at least one of these %d values, the other positions from them and %d companions (%d tuples at arity 3; a core of %d + %d at the highest arity: %d in quick, %d in thorough), and every form every such pair; ", len(CasePairs), len(CaseVals), len(CaseCompanions), caseTuples("case", 3), len(CaseCore), len(CaseCoreCompanions), CaseMaxArity("quick"), CaseMaxArity("thorough"))+
			"(v) templates in run contexts built by the engine from a history: %d flow shapes (call_webhook with / without a saved result, call_resthook, the call inside a child flow; msg / manual / flow_action triggers, a contact with a ticket - every root of the context is non-nil somewhere) each [call] -> [corpus] -> [wait] -> [corpus], x %d HTTP answers (the JSON documents null / true / false / 0 / \"\" / [] / {} / [null] / nested with null members, null with blanks, JSON only after cleaning, a text too long to be saved with the result, empty / non-JSON / truncated bodies, 400 and 410 statuses, a connection error) x {session kept in memory, session marshalled and read back before the resume}; the corpus is derived at run time from the context itself: every property path of the root context of every run down to depth %d (thorough %d), before and after the resume, under %d forms (reference, json(), default(), missing property, index, count, & \"\", = itself); it is evaluated directly through run.EvaluateTemplateValue / EvaluateTemplateText on every run of the waiting session, and by the engine through run.EvaluateTemplate (one send_email per template) in the sprint of the call and in the resumed sprint. "+
			"Oracle: no panic (recovered and keyed by function and panic site), returns within the CPU limit, stays below the memory cap, run.EvaluateTemplate* report failure exactly when they log an error event. "+
			"distinct_nontrivial counts calls that were not rejected by the argument-count wrapper, form evaluations, and templates that contain at least one expression or identifier (every enumerated case is distinct by construction).",
			nf, nt, len(Alphabet), len(Core12), len(Mini6), len(Forms), len(CharAlphabet), MaxTokens, len(TokenVocab), len(StressFamilies),
			len(CtxFlows), len(CtxAnswers), CtxDepth("quick"), CtxDepth("thorough"), len(CtxForms)),
		Assumptions: []string{
			"small-scope: argument tuples come from the stated boundary alphabet, strings from the stated alphabets and lengths; operators have no registry, so the list of forms is written down in the check (a new operator must be added there)",
			"every case runs in an isolated child process under a 4 GiB address-space cap; a case (all inputs <= 400 bytes) that burns more than 20 s (quick) / 60 s (thorough) of CPU without returning is a hang, one that exhausts the cap is a crash of the host; CPU time, not wall-clock, is measured so that load from other jobs does not change verdicts",
			"every case first gets 0.12 s of CPU; one that needs more is re-run alone under the full limit; once a runaway class (function x argument-position class) is confirmed at the full limit, further cases of the same class that exceed 0.12 s are counted under that class's key without being re-confirmed",
			"calls whose result is legitimately large (repeat, foreach) are judged by the same limits: producing up to the memory cap takes far less than the CPU limit",
			"clock, UUID and random sources are owned by the harness (random draws fixed at the bottom / top of the range per environment)",
			"run contexts (v): the flow shapes, HTTP answers and template forms are written down in the check; the property paths are read from the real context objects at run time (a new root or property is covered without editing the check); a context is a whole history and gets the full CPU limit; the contact always replies with the same message",
		},
		Run:         run,
		Replay:      replayFn,
		Guards:      guards,
		Single:      single,
		Classify:    classify,
		HangLimit:   10 * time.Minute,
		SingleLimit: 5 * time.Minute,
		// generous: the targets are CPU-based (about 1 min / 15 min of CPU per core); other jobs share the machine
		Budget: map[string]time.Duration{"quick": 25 * time.Minute, "thorough": 120 * time.Minute},
	})
}
