package c04

import (
	"fmt"
	"regexp"
	"strings"
	"time"

	"github.com/nyaruka/goflow/envs"
	"github.com/nyaruka/goflow/excellent"
	"github.com/nyaruka/goflow/excellent/functions"
	"github.com/nyaruka/goflow/excellent/types"
	"github.com/nyaruka/goflow/flows"
	"github.com/nyaruka/goflow/flows/routers/cases"
	"verif/mc"
	"verif/world"
)

// viol is a violation found inside a child, shipped to the orchestrating worker.
type viol struct {
	Key   string `json:"key"`
	What  string `json:"what"`
	Case  Case   `json:"case"`
	Count int64  `json:"count"`
}

// delta is what a child reports since its previous report.
type delta struct {
	Upto     int              `json:"upto"` // every index <= Upto of the request is accounted for
	Done     bool             `json:"done"`
	Counters map[string]int64 `json:"c,omitempty"`
	Outcomes map[string]int64 `json:"o,omitempty"`
	Facts    map[string]int64 `json:"f,omitempty"`
	Maxes    map[string]int64 `json:"m,omitempty"`
	Viol     []*viol          `json:"v,omitempty"`
	Samples  []any            `json:"s,omitempty"`
	Slow     string           `json:"slow,omitempty"`
	Fatal    string           `json:"fatal,omitempty"`

	violIdx map[string]*viol
}

func newDelta() *delta {
	return &delta{Counters: map[string]int64{}, Outcomes: map[string]int64{}, Facts: map[string]int64{}, Maxes: map[string]int64{}, violIdx: map[string]*viol{}}
}

func (d *delta) violation(key, what string, cs Case) {
	if v := d.violIdx[key]; v != nil {
		v.Count++
		return
	}
	v := &viol{Key: key, What: what, Case: cs, Count: 1}
	d.violIdx[key] = v
	d.Viol = append(d.Viol, v)
}

// rt is the child-side state: the environments, a real waiting run, the small context.
type rt struct {
	tier      string
	envs      [NEnv]envs.Environment
	drawIdx   int
	draws     *world.Draws
	run       flows.Run
	ev        *excellent.Evaluator
	small     *types.XObject
	smallTops []string
	runTops   []string
	vals      []types.XValue
	labels    []string
	used      []int64
	fnCache   map[string]*types.XFunction
}

// RunContextRoot is the world whose waiting run provides the "real run context": a msg-triggered
// flow that saves a result and then waits for a message.
func RunContextRoot() *world.Root {
	return &world.Root{
		Flows:   &world.FlowSet{Flows: []world.FlowSpec{{Nodes: []world.Node{{Kind: "AR", Dests: []int{1}}, {Kind: "W", Dests: []int{-1, -1}}}}}},
		Trigger: "msg",
		TrigMsg: "hello 12 a",
		Env: world.J{
			"date_format": "DD-MM-YYYY", "time_format": "tt:mm:ss", "timezone": "Asia/Kathmandu",
			"allowed_languages": []any{"eng", "spa"}, "default_country": "RW",
			"number_format":   world.J{"decimal_symbol": ",", "digit_grouping_symbol": "."},
			"input_collation": "arabic_variants", "redaction_policy": "urns",
		},
	}
}

func newRT(tier string) (*rt, error) {
	r := &rt{tier: tier, ev: excellent.NewEvaluator(), fnCache: map[string]*types.XFunction{}}
	root := RunContextRoot()
	x, err := root.Start(world.Step{})
	if err != nil {
		return nil, fmt.Errorf("world: %w", err)
	}
	if x.Err != nil {
		return nil, fmt.Errorf("world: engine error: %w", x.Err)
	}
	if x.Session.Status() != flows.SessionStatusWaiting || len(x.Session.Runs()) != 1 {
		return nil, fmt.Errorf("world: expected one waiting run, got status %s with %d runs", x.Session.Status(), len(x.Session.Runs()))
	}
	r.run = x.Session.Runs()[0]
	// environment 0: library defaults, random draws at the bottom of the range;
	// environment 1: the session's merged environment (location resolver, other formats), draws at the top
	r.envs[0] = envs.NewBuilder().Build()
	r.envs[1] = x.Session.MergedEnvironment()
	r.draws = x.Draws
	x.Draws.Choose = func(n int, label string) int {
		if r.drawIdx >= n {
			return n - 1
		}
		return r.drawIdx
	}
	r.rebuildValues()
	r.small = r.newSmallContext()
	r.smallTops = r.small.Properties()
	r.runTops = types.NewXObject(r.run.RootContext(r.envs[1])).Properties()
	return r, nil
}

func (r *rt) rebuildValues() {
	all := allVals()
	if r.used == nil {
		r.used = make([]int64, len(all))
		r.labels = make([]string, len(all))
	}
	r.vals = make([]types.XValue, len(all))
	for i, v := range all {
		r.vals[i] = v.Make()
		r.labels[i] = v.Label
	}
}

// newSmallContext is the context of the evaluator-level template runs: the symbols of the string
// alphabets (a, x, é, contact, name) are bound so that identifiers and lookups resolve.
func (r *rt) newSmallContext() *types.XObject {
	inner := types.NewXObject(map[string]types.XValue{
		"__default__": types.NewXText("dflt"),
		"a":           types.NewXArray(types.NewXNumberFromInt(1), types.NewXArray(types.NewXNumberFromInt(2)), types.NewXText("x")),
		"1":           types.NewXText("one"),
		"é":           types.NewXNumberFromInt(7),
		"name":        types.NewXText("Ann"),
	})
	return types.NewXObject(map[string]types.XValue{
		"a":       inner,
		"x":       types.NewXNumberFromInt(2),
		"é":       types.NewXText("é"),
		"name":    types.NewXText("Bob"),
		"contact": types.NewXObject(map[string]types.XValue{"__default__": types.NewXText("Ann"), "name": types.NewXText("Ann"), "a": inner}),
	})
}

func (r *rt) lookup(name string, test bool) *types.XFunction {
	k := name
	if test {
		k = "T:" + name
	}
	if f, ok := r.fnCache[k]; ok {
		return f
	}
	var f *types.XFunction
	if test {
		f = cases.XTESTS[name]
	} else {
		f = functions.XFUNCTIONS[name]
	}
	r.fnCache[k] = f
	return f
}

func classOf(v types.XValue) string {
	if types.IsNil(v) {
		return "null"
	}
	switch v.(type) {
	case *types.XError:
		return "error"
	case *types.XText:
		return "text"
	case *types.XNumber:
		return "number"
	case *types.XBoolean:
		return "boolean"
	case *types.XDate:
		return "date"
	case *types.XDateTime:
		return "datetime"
	case *types.XTime:
		return "time"
	case *types.XArray:
		return "array"
	case *types.XObject:
		return "object"
	case *types.XFunction:
		return "function"
	}
	return fmt.Sprintf("%T", v)
}

var digitsRE = regexp.MustCompile(`[0-9]+`)
var quotedRE = regexp.MustCompile(`'[^']*'|"[^"]*"`)
var nonWordRE = regexp.MustCompile(`[^A-Za-z0-9:\[\]]+`)

// msgClass reduces a panic message to a short class: digits and quoted parts abstracted away.
func msgClass(desc string) string {
	line := desc
	if i := strings.Index(line, "\n"); i >= 0 {
		line = line[:i]
	}
	line = quotedRE.ReplaceAllString(line, "Q")
	line = digitsRE.ReplaceAllString(line, "N")
	line = strings.TrimPrefix(line, "runtime error: ")
	line = nonWordRE.ReplaceAllString(line, "-")
	line = strings.Trim(line, "-")
	if len(line) > 48 {
		line = line[:48]
	}
	return strings.ToLower(line)
}

// keyName is the function / operator / entry-point part of a signature key.
func keyName(kind, name string) string {
	switch kind {
	case "form":
		return "op[" + strings.ReplaceAll(name, " ", "") + "]"
	case "tpl":
		return "template"
	}
	return name
}

func panicKey(kind, name, stage, desc string) string {
	k := "panic:" + keyName(kind, name)
	if stage != "" {
		k += ":" + stage
	}
	return k + ":" + mc.PanicSite(desc) + ":" + msgClass(desc)
}

func trimTo(s string, n int) string {
	if len(s) > n {
		return s[:n] + fmt.Sprintf("…(%d bytes)", len(s))
	}
	return s
}

// isArityError recognises the errors of the argument-count wrappers (functions/wrappers.go and the few
// functions that count their arguments themselves); only used to count non-trivial calls honestly.
func isArityError(msg string) bool {
	return strings.Contains(msg, "argument(s), got ") || strings.Contains(msg, "takes exactly three arguments") ||
		strings.Contains(msg, "takes one or three arguments") || strings.Contains(msg, "requires an even number of arguments")
}

// hot-path counters of a group, flushed into the delta's maps by the caller
type callCounts struct {
	evals, arity, nontrivial, ok int64
	caseOK, caseMatch            int64 // sub-space (vi): non-error results, router tests that matched
	outcomes                     map[string]int64
}

// execCall executes one function/test call or one form. After the call the result is rendered the way
// a template (text) and a result/event (JSON) would: a value that cannot be rendered crashes the
// host one step later.
func (r *rt) execCall(d *decoder, dc decoded, acc *delta, cc *callCounts) {
	args := make([]types.XValue, len(dc.ids))
	for i, id := range dc.ids {
		args[i] = r.vals[id]
		r.used[id]++
	}
	env := r.envs[dc.env]
	r.drawIdx = 0
	if dc.env == 1 {
		r.drawIdx = 2
	}
	kind := "call"
	var res types.XValue
	stage := ""
	var fn *types.XFunction
	var ctx *types.XObject
	if dc.form {
		kind = "form"
		props := map[string]types.XValue{"a": args[0]}
		if len(args) > 1 {
			props["b"] = args[1]
		}
		ctx = types.NewXObject(props)
	} else {
		fn = r.lookup(dc.name, dc.test)
	}
	p := mc.Guard(func() {
		if fn != nil {
			res = fn.Call(env, args)
		} else {
			res, _ = r.ev.Expression(env, ctx, dc.name)
		}
		if _, isErr := res.(*types.XError); !isErr {
			stage = "render-text"
			types.ToXText(env, res)
			stage = "render-json"
			types.ToXJSON(res)
		}
	})
	cc.evals++
	if p != "" {
		cs := d.toCase(dc)
		cc.outcomes[kind+":panic"]++
		cc.nontrivial++
		acc.violation(panicKey(kind, dc.name, stage, p), fmt.Sprintf("panic evaluating %s\n%s", mc.JSON(cs), p), cs)
		return
	}
	if xe, isErr := res.(*types.XError); isErr && xe != nil {
		if fn != nil && isArityError(xe.Error()) {
			cc.arity++
			return
		}
		cc.nontrivial++
		cc.outcomes[kind+":error"]++
		return
	}
	cc.nontrivial++
	cc.ok++
	cls := classOf(res)
	cc.outcomes[kind+":"+cls]++
	if d.g.caseAlpha() {
		cc.caseOK++
		if dc.test && cls == "object" {
			cc.caseMatch++
		}
	}
}

func (cc *callCounts) flushInto(acc *delta, fnCounter string) {
	acc.Counters["evaluations"] += cc.evals
	acc.Counters[fnCounter] += cc.evals
	acc.Counters["distinct_nontrivial"] += cc.nontrivial
	if cc.arity > 0 {
		acc.Counters["calls_rejected_by_arity_check"] += cc.arity
		acc.Outcomes["call:arity-error"] += cc.arity
	}
	if cc.ok > 0 {
		acc.Counters["ok:"+fnCounter] += cc.ok
	}
	for k, v := range cc.outcomes {
		acc.Outcomes[k] += v
	}
	if cc.caseOK > 0 {
		acc.Facts["case:returned-a-value"] += cc.caseOK
	}
	if cc.caseMatch > 0 {
		acc.Facts["case:router-test-matched"] += cc.caseMatch
	}
	*cc = callCounts{outcomes: map[string]int64{}}
}

type tplResult struct {
	entry string
	stage string // ctx: where a panic happened, other than the evaluation itself
	p     string
	ok    bool
	nErr  int
	isRun bool
	cls   string
}

// execTemplate evaluates one template string through every entry point.
func (r *rt) execTemplate(dc decoded, acc *delta, wantSample bool) {
	s := dc.s
	cs := Case{K: "tpl", S: s, Fam: dc.fam}
	acc.Counters["evaluations"]++
	acc.Counters["templates"]++
	nontrivial := excellent.HasExpressions(s, r.smallTops)
	if nontrivial {
		acc.Counters["distinct_nontrivial"]++
		acc.Counters["templates_with_expression"]++
	}
	env0, env1 := r.envs[0], r.envs[1]
	escape := func(x string) string { return strings.ReplaceAll(x, "a", `\a`) }
	results := make([]tplResult, 0, 6)

	run := func(entry string, isRun bool, f func() (cls string, ok bool, nErr int)) {
		tr := tplResult{entry: entry, isRun: isRun}
		tr.p = mc.Guard(func() { tr.cls, tr.ok, tr.nErr = f() })
		results = append(results, tr)
	}
	countErrs := func(n *int) flows.EventCallback {
		return func(e flows.Event) {
			if e.Type() == "error" {
				*n++
			}
		}
	}
	run("Evaluator.Template", false, func() (string, bool, int) {
		_, _, err := r.ev.Template(env0, r.small, s, nil)
		return "text", err == nil, 0
	})
	run("Evaluator.Template+escaping", false, func() (string, bool, int) {
		_, _, err := r.ev.Template(env1, r.small, s, escape)
		return "text", err == nil, 0
	})
	run("Evaluator.TemplateValue", false, func() (string, bool, int) {
		v, _, err := r.ev.TemplateValue(env0, r.small, s)
		cls := classOf(v)
		if p := mc.Guard(func() { types.ToXText(env0, v); types.ToXJSON(v) }); p != "" {
			panic("rendering the value returned by TemplateValue: " + p)
		}
		return cls, err == nil && cls != "error", 0
	})
	run("run.EvaluateTemplate", true, func() (string, bool, int) {
		n := 0
		_, ok := r.run.EvaluateTemplate(s, countErrs(&n))
		return "text", ok, n
	})
	run("run.EvaluateTemplateValue", true, func() (string, bool, int) {
		n := 0
		v, ok := r.run.EvaluateTemplateValue(s, countErrs(&n))
		return classOf(v), ok, n
	})
	run("run.EvaluateTemplateText", true, func() (string, bool, int) {
		n := 0
		_, ok := r.run.EvaluateTemplateText(s, escape, false, countErrs(&n))
		return "text", ok, n
	})

	for _, tr := range results {
		if tr.p != "" {
			acc.Outcomes["tpl:panic"]++
			acc.violation(panicKey("tpl", "", "", tr.p), fmt.Sprintf("panic evaluating template %q through %s\n%s", trimTo(s, 300), tr.entry, tr.p), cs)
			continue
		}
		if tr.isRun {
			// failures are reported as error events: ok=false exactly when an error event was logged
			if tr.ok && tr.nErr > 0 {
				acc.violation("events:"+tr.entry+":reported-success-but-logged-error-event", fmt.Sprintf("template %q through %s returned ok=true and logged %d error event(s)", trimTo(s, 300), tr.entry, tr.nErr), cs)
			}
			if !tr.ok && tr.nErr == 0 {
				acc.violation("events:"+tr.entry+":failed-without-error-event", fmt.Sprintf("template %q through %s returned ok=false without an error event", trimTo(s, 300), tr.entry), cs)
			}
		}
		o := "ok"
		if !tr.ok {
			o = "error"
		}
		if tr.entry == "Evaluator.TemplateValue" || tr.entry == "run.EvaluateTemplateValue" {
			acc.Outcomes["tpl:value:"+tr.cls]++
		}
		if nontrivial {
			acc.Outcomes["tpl:"+tr.entry+":"+o]++
			if !tr.ok {
				acc.Facts["template_error_via:"+tr.entry]++
			} else {
				acc.Facts["template_ok_via:"+tr.entry]++
			}
		} else {
			acc.Outcomes["tpl:body-only:"+o]++
		}
	}
	if wantSample && nontrivial && len(acc.Samples) == 0 && len(s) >= 5 {
		via := map[string]string{}
		for _, tr := range results {
			switch {
			case tr.p != "":
				via[tr.entry] = "panic"
			case tr.ok:
				via[tr.entry] = "ok " + tr.cls
			default:
				via[tr.entry] = fmt.Sprintf("error (%d error events) %s", tr.nErr, tr.cls)
			}
		}
		acc.Samples = append(acc.Samples, map[string]any{"template": s, "via": via})
	}
}

// runGroup executes the cases [from, size) of a group minus skip - or exactly the indices of only when
// it is given; progress is published through pub (index about to run) and reports go through flush.
func (r *rt) runGroup(g Group, from int, skip map[int]bool, only []int, wantSample bool, pub func(idx int), flush func(*delta)) {
	size := g.Size(r.tier)
	d := newDecoder(g, r.tier)
	r.rebuildValues()
	acc := newDelta()
	last := time.Now()
	fnCounter := "fn:" + g.Name
	if g.Kind == "form" {
		fnCounter = "form:" + g.Name
	}
	cc := &callCounts{outcomes: map[string]int64{}}
	partCounter := "cases_batch"
	if g.Danger {
		partCounter = "cases_predicted_dangerous"
	}
	var parted int64
	emit := func(upto int, done bool) {
		acc.Upto, acc.Done = upto, done
		cc.flushInto(acc, fnCounter)
		acc.Counters[partCounter] += parted
		if g.caseAlpha() {
			acc.Counters["cases_with_a_case_variant_value"] += parted
		}
		parted = 0
		for id, n := range r.used {
			if n > 0 {
				acc.Facts["val:"+r.labels[id]] += n
				r.used[id] = 0
			}
		}
		flush(acc)
		acc = newDelta()
		last = time.Now()
	}
	n := 0
	one := func(i int) {
		dc := d.at(i)
		if dc.skip {
			return
		}
		pub(i)
		switch g.Kind {
		case "call", "form":
			r.execCall(d, dc, acc, cc)
			if wantSample && len(acc.Samples) == 0 && g.Arity >= 2 && n == 7 {
				acc.Samples = append(acc.Samples, d.toCase(dc))
			}
		case "xexp":
			fc := "xexp:fn:" + dc.name
			if dc.form {
				fc = "xexp:form:" + dc.name
			}
			r.execCall(d, dc, acc, cc)
			cc.flushInto(acc, fc)
		case "ctx":
			if err := r.execCtx(*dc.ctx, acc, wantSample); err != nil {
				acc.violation("harness:ctx", fmt.Sprintf("harness error in context %s: %v", mc.JSON(*dc.ctx), err), *dc.ctx)
			}
		default:
			r.execTemplate(dc, acc, wantSample)
		}
		// leave the case before anything is reported, so that the worker can never attribute a limit to a
		// case whose report it already holds
		pub(-1)
		parted++
		n++
		if n%16 == 0 && time.Since(last) > 100*time.Millisecond {
			emit(i, false)
		}
	}
	if only != nil {
		for _, i := range only {
			one(i)
		}
	} else {
		for i := from; i < size; i++ {
			if !skip[i] {
				one(i)
			}
		}
	}
	pub(-1)
	emit(size-1, true)
}

// runOne executes exactly one explicitly given case (index 0 of a virtual group).
func (r *rt) runOne(g Group, cs Case, pub func(idx int), flush func(*delta)) string {
	r.rebuildValues()
	acc := newDelta()
	dc := decoded{env: cs.E, name: cs.F, test: cs.T, form: cs.K == "form", s: cs.S, fam: cs.Fam}
	for _, l := range cs.A {
		id, ok := valIndex[l]
		if !ok {
			return "unknown alphabet label in case: " + l
		}
		dc.ids = append(dc.ids, id)
	}
	if cs.E < 0 || cs.E >= NEnv {
		return "bad environment index"
	}
	pub(0)
	switch cs.K {
	case "call", "form":
		if cs.K == "call" && r.lookup(cs.F, cs.T) == nil {
			return "no such function: " + cs.F
		}
		if cs.K == "form" && (len(dc.ids) < 1 || len(dc.ids) > 2) {
			return "a form takes one or two operands"
		}
		d := newDecoder(Group{Kind: "call", Name: cs.F, Arity: len(dc.ids), Prefix: -1}, r.tier) // only its value table is used
		fc := "one:" + cs.F
		switch g.Kind {
		case "call":
			fc = "fn:" + cs.F
		case "form":
			fc = "form:" + cs.F
		case "xexp":
			fc = "xexp:fn:" + cs.F
			if cs.K == "form" {
				fc = "xexp:form:" + cs.F
			}
		}
		cc := &callCounts{outcomes: map[string]int64{}}
		r.execCall(d, dc, acc, cc)
		cc.flushInto(acc, fc)
	case "tpl":
		r.execTemplate(dc, acc, false)
	case "ctx":
		if err := r.execCtx(cs, acc, false); err != nil {
			return "context " + mc.JSON(cs) + ": " + err.Error()
		}
	default:
		return "unknown case kind " + cs.K
	}
	if g.Kind != "" {
		if g.Danger {
			acc.Counters["cases_predicted_dangerous"]++
		} else {
			acc.Counters["cases_batch"]++
		}
	}
	for id, n := range r.used {
		if n > 0 {
			acc.Facts["val:"+r.labels[id]] += n
			r.used[id] = 0
		}
	}
	pub(-1)
	acc.Upto, acc.Done = 0, true
	flush(acc)
	return ""
}
