package c04

import (
	"fmt"
	"sort"
	"strings"

	"github.com/nyaruka/goflow/excellent/functions"
	"github.com/nyaruka/goflow/flows/routers/cases"
)

// NEnv is the number of environments every call / form is evaluated under (innermost dimension).
const NEnv = 2

// Case is one element of the enumerated space, in the form written to replay artefacts.
type Case struct {
	K string   `json:"k"`           // call | form | tpl
	F string   `json:"f,omitempty"` // function / test name, or the form's expression
	T bool     `json:"test,omitempty"`
	E int      `json:"e"`           // environment index
	A []string `json:"a,omitempty"` // argument labels
	S string   `json:"s,omitempty"` // template string
	// Fam is the stress family of a generated template (key material), empty otherwise
	Fam string `json:"fam,omitempty"`
	// ctx: the flow shape, the label of the HTTP answer and whether the session is marshalled and read
	// back before the resume; S, when set, is the one template to evaluate instead of the derived corpus
	Flow    string `json:"flow,omitempty"`
	Body    string `json:"body,omitempty"`
	Restart bool   `json:"restart,omitempty"`
}

// Sig is the static danger signature of a case: for calls and forms the magnitude class of each
// argument position ("" = benign); for templates the sorted operator/function tokens that accompany
// a huge literal, or the stress family.
type Sig []string

func (s Sig) Empty() bool {
	for _, x := range s {
		if x != "" {
			return false
		}
	}
	return true
}

// Covers reports whether every dangerous element of s is also present in o (s is a sub-signature).
func (s Sig) Covers(o Sig, positional bool) bool {
	if s.Empty() {
		return false
	}
	if positional {
		if len(s) != len(o) {
			return false
		}
		for i := range s {
			if s[i] != "" && s[i] != o[i] {
				return false
			}
		}
		return true
	}
	for _, x := range s {
		found := false
		for _, y := range o {
			if x == y {
				found = true
			}
		}
		if !found {
			return false
		}
	}
	return true
}

// String renders the argument-position class used in signature keys, e.g. "m31@2" or "m63@1+big@2".
func (s Sig) String(positional bool) string {
	var parts []string
	for i, x := range s {
		if x == "" {
			continue
		}
		if positional {
			parts = append(parts, fmt.Sprintf("%s@%d", x, i+1))
		} else {
			parts = append(parts, x)
		}
	}
	if len(parts) == 0 {
		return "unpredicted"
	}
	return strings.Join(parts, "+")
}

// Form is an operator / lookup / call form evaluated through Evaluator.Expression with the operands
// bound to the context variables a and b.
type Form struct {
	Expr  string
	Arity int
}

// Forms lists every operator of excellent/operators (there is no registry: the tree nodes name the
// package variables) plus the lookup and call forms of tree.go.
var Forms = []Form{
	{"a + b", 2}, {"a - b", 2}, {"a * b", 2}, {"a / b", 2}, {"a ^ b", 2}, {"a & b", 2},
	{"a = b", 2}, {"a != b", 2}, {"a < b", 2}, {"a <= b", 2}, {"a > b", 2}, {"a >= b", 2},
	{"a[b]", 2}, {"a(b)", 2},
	{"-a", 1}, {"a.a", 1}, {"a.0", 1}, {"a()", 1}, {"(a)", 1},
}

// Group is a contiguous block of the case space: the unit handed to an isolated child process.
type Group struct {
	Kind   string `json:"kind"`           // call | form | xexp | chars | tokens | stress | ctx
	Name   string `json:"name,omitempty"` // ctx: the flow shape
	Body   string `json:"body,omitempty"` // ctx: label of the HTTP answer
	Test   bool   `json:"test,omitempty"`
	Arity  int    `json:"arity,omitempty"`
	Alpha  string `json:"alpha,omitempty"`  // full | core | mini | case | casecore (see casefold.go)
	Danger bool   `json:"danger,omitempty"` // the part whose cases are predicted dangerous
	Len    int    `json:"len,omitempty"`    // chars: length; tokens: number of tokens
	Prefix int    `json:"prefix"`           // chars/tokens: index of the fixed prefix, -1 = none
	Part   int    `json:"part,omitempty"`   // xexp: partition number
	Parts  int    `json:"parts,omitempty"`
}

func (g Group) ID() string {
	return fmt.Sprintf("%s/%s/%d/%s/%v/%d/%d/%d", g.Kind, g.Name+g.Body, g.Arity, g.Alpha, g.Danger, g.Len, g.Prefix, g.Part)
}

// Positional reports whether signatures of this group are per argument position.
func (g Group) Positional() bool { return g.Kind == "call" || g.Kind == "form" }

func (g Group) alphaIDs() []int {
	switch g.Alpha {
	case "core":
		return idsOf(Core12)
	case "mini":
		return idsOf(Mini6)
	}
	return fullIDs()
}

func ipow(b, e int) int {
	r := 1
	for i := 0; i < e; i++ {
		r *= b
	}
	return r
}

// tupler enumerates the argument tuples of a call/form group. The batch part is every tuple of
// benign values in lexicographic order; the danger part is every tuple with at least one dangerous
// value, ordered by the number of dangerous positions (so that a minimal signature is met first).
type tupler struct {
	n            int
	benign, huge []int
	masks        []int // danger part: position subsets in order
	cum          []int // cumulative tuple counts per mask
	total        int
}

func newTupler(g Group) *tupler {
	b, h := split(g.alphaIDs())
	if g.caseAlpha() {
		// sub-space (vi): every tuple with at least one case value, the rest from the companions
		b, h = caseSplit(g.Alpha)
	}
	t := &tupler{n: g.Arity, benign: b, huge: h}
	if !g.Danger && !g.caseAlpha() {
		t.total = ipow(len(b), g.Arity)
		return t
	}
	for m := 1; m < 1<<g.Arity; m++ {
		t.masks = append(t.masks, m)
	}
	pc := func(m int) int {
		c := 0
		for ; m > 0; m >>= 1 {
			c += m & 1
		}
		return c
	}
	sort.SliceStable(t.masks, func(i, j int) bool {
		if pc(t.masks[i]) != pc(t.masks[j]) {
			return pc(t.masks[i]) < pc(t.masks[j])
		}
		return t.masks[i] < t.masks[j]
	})
	for _, m := range t.masks {
		t.cum = append(t.cum, t.total)
		k := pc(m)
		t.total += ipow(len(h), k) * ipow(len(b), g.Arity-k)
	}
	return t
}

// at decodes tuple number i into value ids (position 0 first). Bit p of a mask = position p.
func (t *tupler) at(i int, out []int) {
	if t.masks == nil {
		for p := t.n - 1; p >= 0; p-- {
			out[p] = t.benign[i%len(t.benign)]
			i /= len(t.benign)
		}
		return
	}
	mi := sort.Search(len(t.cum), func(k int) bool { return t.cum[k] > i }) - 1
	m := t.masks[mi]
	i -= t.cum[mi]
	for p := t.n - 1; p >= 0; p-- {
		src := t.benign
		if m&(1<<p) != 0 {
			src = t.huge
		}
		out[p] = src[i%len(src)]
		i /= len(src)
	}
}

// CharAlphabet is the template symbol alphabet of sub-space (iii).
var CharAlphabet = []string{"@", "(", ")", `"`, `\`, "a", ".", "1", ",", "-", " ", "é"}

// HugeLiteral is the one dangerous token of the token vocabulary.
const HugeLiteral = "2147483647"

// TokenVocab is the expression token vocabulary; token strings are joined by blanks inside @( ).
var TokenVocab = []string{
	"1", "0", "1.5", HugeLiteral, `"a"`, `""`, "true", "null", "a", "x", "contact", "name",
	"(", ")", "[", "]", ",", ".", "=>", "+", "-", "*", "/", "^", "&", "=", "!=", "<", ">=", "upper", "now",
}

var tokenIsOperand = map[string]bool{"1": true, "0": true, "1.5": true, HugeLiteral: true, `"a"`: true, `""`: true,
	"true": true, "null": true, "a": true, "x": true, "contact": true, "name": true, "(": true, ")": true, "[": true, "]": true, ",": true, ".": true}

// StressFamilies are generated templates of growing depth n (all <= 400 bytes).
var StressFamilies = []struct {
	Name string
	Gen  func(n int) string
}{
	{"parens", func(n int) string { return "@(" + strings.Repeat("(", n) + "1" + strings.Repeat(")", n) + ")" }},
	{"negations", func(n int) string { return "@(" + strings.Repeat("-", n) + "1)" }},
	{"add-chain", func(n int) string { return "@(1" + strings.Repeat("+1", n) + ")" }},
	{"concat-chain", func(n int) string { return `@("a"` + strings.Repeat(`&"a"`, n) + ")" }},
	{"dot-chain", func(n int) string { return "@(a" + strings.Repeat(".a", n) + ")" }},
	{"index-chain", func(n int) string { return "@(a" + strings.Repeat("[0]", n) + ")" }},
	{"call-nest", func(n int) string { return "@(" + strings.Repeat("upper(", n) + `"a"` + strings.Repeat(")", n) + ")" }},
	{"call-chain", func(n int) string { return "@(upper" + strings.Repeat("()", n) + ")" }},
	{"array-nest", func(n int) string { return "@(" + strings.Repeat("array(", n) + strings.Repeat(")", n) + ")" }},
	{"anon-nest", func(n int) string { return "@(" + strings.Repeat("(x)=>", n) + "x)" }},
	{"open-parens", func(n int) string { return "@(" + strings.Repeat("(", n) }},
	{"ats", func(n int) string { return strings.Repeat("@", n) }},
	{"at-parens", func(n int) string { return strings.Repeat("@(", n) }},
	{"quotes", func(n int) string { return "@(" + strings.Repeat(`"`, n) + ")" }},
	{"backslashes", func(n int) string { return `@("` + strings.Repeat(`\`, n) + `")` }},
	{"identifiers", func(n int) string { return strings.Repeat("@a.a ", n) }},
	{"digits", func(n int) string { return "@(" + strings.Repeat("9", n) + ")" }},
	{"fraction-digits", func(n int) string { return "@(0." + strings.Repeat("9", n) + " * 1)" }},
	{"mul-chain", func(n int) string { return "@(99" + strings.Repeat("*99", n) + ")" }},
	{"pow-chain", func(n int) string { return "@(2" + strings.Repeat("^2", n) + ")" }},
	{"repeat-nest", func(n int) string {
		return "@(text_length(" + strings.Repeat("repeat(", n) + `"ab"` + strings.Repeat(", 99)", n) + "))"
	}},
	{"foreach-nest", func(n int) string {
		return "@(" + strings.Repeat("foreach(array(1,2), (x) => ", n) + "x" + strings.Repeat(")", n) + ")"
	}},
	{"foreach-nest-wide", func(n int) string {
		return "@(count(" + strings.Repeat("foreach(array(1,2,3,4,5,6,7,8,9), (x) => ", n) + "x" + strings.Repeat(")", n) + "))"
	}},
}

// StressDepths are the depths n of every family; a template longer than 400 bytes is not generated.
var StressDepths = []int{1, 2, 3, 4, 6, 8, 12, 16, 24, 32, 48, 64, 96, 128, 190}

type stressCase struct {
	fam string
	n   int
	s   string
}

func stressCases() []stressCase {
	var out []stressCase
	for _, f := range StressFamilies {
		for _, n := range StressDepths {
			s := f.Gen(n)
			if len(s) <= 400 {
				out = append(out, stressCase{f.Name, n, s})
			}
		}
	}
	return out
}

// xexpCases lists sub-space (iv): a webhook-JSON number with a huge exponent as an argument of every
// function (arity 1; arity 2 against the core alphabet in the thorough tier) and every form.
type xexpCase struct {
	form bool
	name string
	test bool
	args []int
}

func xexpCases(tier string) []xexpCase {
	var out []xexpCase
	xs := []int{valIndex["j:1e999999999"]}
	if tier == "thorough" {
		xs = append(xs, valIndex["j:1e-999999999"])
	}
	others := idsOf([]string{"n:1", "t:a"})
	for _, x := range xs {
		for _, f := range Forms {
			if f.Arity == 1 {
				out = append(out, xexpCase{form: true, name: f.Expr, args: []int{x}})
			} else {
				for _, o := range others {
					out = append(out, xexpCase{form: true, name: f.Expr, args: []int{x, o}})
					out = append(out, xexpCase{form: true, name: f.Expr, args: []int{o, x}})
				}
			}
		}
		for _, fn := range FunctionNames() {
			out = append(out, xexpCase{name: fn.Name, test: fn.Test, args: []int{x}})
		}
		if tier == "thorough" {
			for _, fn := range FunctionNames() {
				for _, o := range idsOf(Core12) {
					out = append(out, xexpCase{name: fn.Name, test: fn.Test, args: []int{x, o}})
					out = append(out, xexpCase{name: fn.Name, test: fn.Test, args: []int{o, x}})
				}
			}
		}
	}
	return out
}

// Fn names one registered function; Test says it is (also) registered as a router test, in which case
// it is called through cases.XTESTS.
type Fn struct {
	Name string
	Test bool
}

// FunctionNames reads both registries at run time (a newly registered function is covered).
func FunctionNames() []Fn {
	seen := map[string]bool{}
	var out []Fn
	for name := range cases.XTESTS {
		seen[name] = true
		out = append(out, Fn{name, true})
	}
	for name := range functions.XFUNCTIONS {
		if !seen[name] {
			out = append(out, Fn{name, false})
		}
	}
	sort.Slice(out, func(i, j int) bool { return out[i].Name < out[j].Name })
	return out
}

// MaxCharLen / MaxTokens give the string bounds of a tier.
func MaxCharLen(tier string) int {
	if tier == "thorough" {
		return 7
	}
	return 6
}

const MaxTokens = 4

const XExpParts = 2

// Size is the size of the group's index space (for string groups some indices belong to a sibling
// group and are skipped: see at()).
func (g Group) Size(tier string) int {
	switch g.Kind {
	case "call", "form":
		return newTupler(g).total * NEnv
	case "xexp":
		n := len(xexpCases(tier))
		return (n - g.Part + g.Parts - 1) / g.Parts
	case "chars":
		if g.Prefix < 0 {
			return ipow(len(CharAlphabet), g.Len)
		}
		return ipow(len(CharAlphabet), g.Len-2)
	case "tokens":
		if g.Danger {
			n := 0
			for t := 1; t <= MaxTokens; t++ {
				n += ipow(len(TokenVocab), t)
			}
			return n
		}
		if g.Prefix < 0 {
			return ipow(len(TokenVocab), g.Len)
		}
		return ipow(len(TokenVocab), g.Len-1)
	case "stress":
		return len(stressCases())
	case "ctx":
		return 2 // the session kept in memory, the session marshalled and read back
	}
	panic("c04: unknown group kind " + g.Kind)
}

// Groups lists the whole case space of a tier, in a fixed order.
func Groups(tier string) []Group {
	var gs []Group
	thorough := tier == "thorough"
	addTuples := func(kind, name string, test bool, arity int, alpha string) {
		g := Group{Kind: kind, Name: name, Test: test, Arity: arity, Alpha: alpha, Prefix: -1}
		gs = append(gs, g)
		if arity > 0 {
			g.Danger = true
			gs = append(gs, g)
		}
	}
	for _, fn := range FunctionNames() {
		for arity := 0; arity <= 5; arity++ {
			alpha := "full"
			switch {
			case arity == 4 && !thorough:
				alpha = "core"
			case arity == 5 && !thorough:
				alpha = "mini"
			case arity == 5:
				alpha = "core"
			}
			addTuples("call", fn.Name, fn.Test, arity, alpha)
		}
		for arity := 1; arity <= CaseMaxArity(tier); arity++ {
			alpha := "case"
			if arity == CaseMaxArity(tier) {
				alpha = "casecore"
			}
			gs = append(gs, Group{Kind: "call", Name: fn.Name, Test: fn.Test, Arity: arity, Alpha: alpha, Prefix: -1})
		}
	}
	for _, f := range Forms {
		addTuples("form", f.Expr, false, f.Arity, "full")
		gs = append(gs, Group{Kind: "form", Name: f.Expr, Arity: f.Arity, Alpha: "case", Prefix: -1})
	}
	for p := 0; p < XExpParts; p++ {
		gs = append(gs, Group{Kind: "xexp", Danger: true, Part: p, Parts: XExpParts, Prefix: -1})
	}
	for l := 0; l <= MaxCharLen(tier); l++ {
		if l <= 3 {
			gs = append(gs, Group{Kind: "chars", Len: l, Prefix: -1})
			continue
		}
		for p := 0; p < len(CharAlphabet)*len(CharAlphabet); p++ {
			gs = append(gs, Group{Kind: "chars", Len: l, Prefix: p})
		}
	}
	for t := 1; t <= MaxTokens; t++ {
		if t <= 2 {
			gs = append(gs, Group{Kind: "tokens", Len: t, Prefix: -1})
			continue
		}
		for p := range TokenVocab {
			gs = append(gs, Group{Kind: "tokens", Len: t, Prefix: p})
		}
	}
	gs = append(gs, Group{Kind: "tokens", Danger: true, Prefix: -1})
	gs = append(gs, Group{Kind: "stress", Danger: true, Prefix: -1})
	gs = append(gs, ctxGroups()...)
	return gs
}

// cost is a rough relative cost used only to balance shards.
func (g Group) cost(tier string) int {
	n := g.Size(tier)
	switch g.Kind {
	case "chars":
		n *= 20
	case "tokens":
		n *= 60
	case "form":
		n *= 12
	case "xexp", "stress":
		n = 20000000
	case "ctx":
		n = 600000
		if g.Name == "webhook-in-child" {
			n *= 2
		}
	}
	if g.Danger {
		n += 4000000
	}
	return n
}

// Assign distributes the groups over the shards: largest first onto the least loaded shard
// (deterministic; every worker computes the same assignment).
func Assign(gs []Group, tier string, nshards int, seed int64) [][]int {
	if nshards < 1 {
		nshards = 1
	}
	order := make([]int, len(gs))
	costs := make([]int, len(gs))
	for i := range gs {
		order[i] = i
		costs[i] = gs[i].cost(tier)
	}
	sort.SliceStable(order, func(a, b int) bool { return costs[order[a]] > costs[order[b]] })
	load := make([]int, nshards)
	out := make([][]int, nshards)
	for _, gi := range order {
		best := 0
		for s := 1; s < nshards; s++ {
			if load[s] < load[best] {
				best = s
			}
		}
		load[best] += costs[gi]
		out[best] = append(out[best], gi)
	}
	// the seed only rotates the order in which a shard visits its groups
	for s := range out {
		if n := len(out[s]); n > 1 && seed != 0 {
			k := int(uint64(seed) % uint64(n))
			out[s] = append(append([]int{}, out[s][k:]...), out[s][:k]...)
		}
	}
	return out
}

// decoded is one case of a group, decoded from its index.
type decoded struct {
	skip bool  // the index belongs to a sibling group
	ids  []int // call/form/xexp: value ids
	env  int
	form bool
	name string
	test bool
	s    string // template
	fam  string
	sig  Sig
	ctx  *Case // ctx: the context
}

// decoder decodes indices of one group (keeps per-group tables).
type decoder struct {
	g     Group
	tier  string
	tup   *tupler
	vals  []Val
	xexp  []xexpCase
	strs  []stressCase
	idbuf []int
}

func newDecoder(g Group, tier string) *decoder {
	d := &decoder{g: g, tier: tier, vals: allVals()}
	switch g.Kind {
	case "call", "form":
		d.tup = newTupler(g)
		d.idbuf = make([]int, g.Arity)
	case "xexp":
		d.xexp = xexpCases(tier)
	case "stress":
		d.strs = stressCases()
	}
	return d
}

func digitsOf(i, base, n int, out []int) {
	for p := n - 1; p >= 0; p-- {
		out[p] = i % base
		i /= base
	}
}

// at decodes index i. The returned ids slice is reused between calls.
func (d *decoder) at(i int) decoded {
	g := d.g
	switch g.Kind {
	case "call", "form":
		env := i % NEnv
		d.tup.at(i/NEnv, d.idbuf)
		dc := decoded{ids: d.idbuf, env: env, form: g.Kind == "form", name: g.Name, test: g.Test}
		if g.Danger {
			dc.sig = make(Sig, g.Arity)
			for p, id := range d.idbuf {
				dc.sig[p] = d.vals[id].Mag
			}
		}
		return dc
	case "xexp":
		x := d.xexp[i*g.Parts+g.Part]
		return decoded{ids: x.args, form: x.form, name: x.name, test: x.test, sig: Sig{"xexp"}}
	case "chars":
		n := len(CharAlphabet)
		var sb strings.Builder
		rest := g.Len
		if g.Prefix >= 0 {
			sb.WriteString(CharAlphabet[g.Prefix/n])
			sb.WriteString(CharAlphabet[g.Prefix%n])
			rest -= 2
		}
		dg := make([]int, rest)
		digitsOf(i, n, rest, dg)
		for _, x := range dg {
			sb.WriteString(CharAlphabet[x])
		}
		return decoded{s: sb.String()}
	case "tokens":
		n := len(TokenVocab)
		var toks []int
		if g.Danger {
			t := 1
			for ; t <= MaxTokens; t++ {
				if c := ipow(n, t); i < c {
					break
				} else {
					i -= c
				}
			}
			toks = make([]int, t)
			digitsOf(i, n, t, toks)
		} else {
			toks = make([]int, g.Len)
			if g.Prefix >= 0 {
				toks[0] = g.Prefix
				digitsOf(i, n, g.Len-1, toks[1:])
			} else {
				digitsOf(i, n, g.Len, toks)
			}
		}
		huge := false
		parts := make([]string, len(toks))
		var ops []string
		for k, t := range toks {
			parts[k] = TokenVocab[t]
			if parts[k] == HugeLiteral {
				huge = true
			} else if !tokenIsOperand[parts[k]] {
				ops = append(ops, parts[k])
			}
		}
		if huge != g.Danger {
			return decoded{skip: true}
		}
		dc := decoded{s: "@(" + strings.Join(parts, " ") + ")"}
		if huge {
			sort.Strings(ops)
			var sig Sig
			for k, o := range ops {
				if k == 0 || ops[k-1] != o {
					sig = append(sig, o)
				}
			}
			dc.sig = append(sig, "huge-literal")
		}
		return dc
	case "stress":
		s := d.strs[i]
		return decoded{s: s.s, fam: s.fam, sig: Sig{s.fam}}
	case "ctx":
		return decoded{ctx: &Case{K: "ctx", Flow: g.Name, Body: g.Body, Restart: i == 1}}
	}
	panic("c04: unknown group kind")
}

// toCase renders a decoded case as a replayable Case.
func (d *decoder) toCase(dc decoded) Case {
	if dc.ctx != nil {
		return *dc.ctx
	}
	if dc.s != "" || d.g.Kind == "chars" || d.g.Kind == "tokens" || d.g.Kind == "stress" {
		return Case{K: "tpl", S: dc.s, Fam: dc.fam}
	}
	c := Case{K: "call", F: dc.name, T: dc.test, E: dc.env}
	if dc.form {
		c.K = "form"
	}
	for _, id := range dc.ids {
		c.A = append(c.A, d.vals[id].Label)
	}
	return c
}
