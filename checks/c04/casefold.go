package c04

import (
	"fmt"
	"strings"
	"unicode/utf8"

	"github.com/nyaruka/goflow/excellent/types"
)

// Sub-space (vi): texts whose case mapping changes their UTF-8 length.
//
// The boundary alphabet's texts are ASCII plus "é"; for all of them strings.ToLower / ToUpper /
// EqualFold preserve the byte length, so code that compares one form of a text (lower-cased, folded,
// collated) and then cuts or indexes another form by a length taken from the first is never exercised
// by them. The values below come in pairs that are equal when case is ignored but differ in byte
// length, in both directions:
//
//	İ U+0130 (2 bytes)  lower-cases to i (1 byte); not a simple fold of i (EqualFold says no, ToLower says equal)
//	K U+212A KELVIN SIGN (3 bytes)  lower-cases to k (1 byte); EqualFold says equal
//	Ⱥ U+023A (2 bytes)  lower-cases to ⱥ U+2C65 (3 bytes): lower-casing grows, upper-casing shrinks
//
// alone (the shortest texts), at the start of a word, at the end of a word and in a text of several
// words; as texts, as items of an array, as property names of an object and as the category / intent
// names of a result object. They are kept out of Alphabet (like XExp) so that the full space of (i)
// does not grow; instead every function, router test and form gets every tuple that contains at
// least one of them, the other positions being filled from CaseVals and CaseCompanions.

const (
	kelvin   = "\u212A" // KELVIN SIGN (looks like an ASCII K, is not)
	upperSen = "Ⱥ İstanbul a" + kelvin
	lowerSen = "ⱥ istanbul ak"
)

// CasePairs are the pairs (a, b) of case-variant texts: equal under strings.ToLower, different byte length.
var CasePairs = [][2]string{
	{"İstanbul", "istanbul"},
	{kelvin, "k"},
	{"Ⱥ", "ⱥ"},
	{upperSen, lowerSen},
}

func caseLabel(s string) string {
	if s == kelvin {
		return "t:K(U+212A)"
	}
	return "t:" + strings.ReplaceAll(s, kelvin, "K(U+212A)")
}

// CaseVals are the values of sub-space (vi) (value ids follow XExp's).
var CaseVals = func() []Val {
	var out []Val
	var all []string
	for _, p := range CasePairs {
		for _, s := range p {
			out = append(out, Val{caseLabel(s), "", text(s)})
			all = append(all, s)
		}
	}
	out = append(out,
		Val{"a:case-variants", "", func() types.XValue {
			items := make([]types.XValue, len(all))
			for i, s := range all {
				items[i] = types.NewXText(s)
			}
			return types.NewXArray(items...)
		}},
		// property names are looked up ignoring case
		Val{"o:case-variant-keys", "", func() types.XValue {
			return types.NewXObject(map[string]types.XValue{
				"__default__": types.NewXText("İstanbul"),
				"İstanbul":    types.NewXNumberFromInt(1),
				kelvin:        types.NewXNumberFromInt(2),
				"Ⱥ":           types.NewXNumberFromInt(3),
				"ak":          types.NewXText(upperSen),
			})
		}},
		// a result whose category and intent / entity names are such texts (has_category, has_intent, ...)
		Val{"o:case-variant-result", "", func() types.XValue {
			return types.NewXObject(map[string]types.XValue{
				"__default__":          types.NewXText("İstanbul"),
				"name":                 types.NewXText("Şehir"),
				"value":                types.NewXText("İstanbul"),
				"category":             types.NewXText("İstanbul"),
				"category_localized":   types.NewXText(kelvin),
				"input":                types.NewXText(upperSen),
				"extra":                types.JSONToXValue([]byte(`{"intents":[{"name":"İstanbul","confidence":0.9},{"name":"` + kelvin + `","confidence":0.5},{"name":"Ⱥ","confidence":0.4}],"entities":{"İstanbul":[{"value":"` + kelvin + `","confidence":1}]}}`)),
				"values":               types.NewXArray(types.NewXText("İstanbul"), types.NewXText(kelvin)),
				"categories":           types.NewXArray(types.NewXText("İstanbul"), types.NewXText(kelvin)),
				"categories_localized": types.NewXArray(types.NewXText("Ⱥ"), types.NewXText(kelvin)),
			})
		}},
	)
	return out
}()

// CaseCompanions are the values of Alphabet that fill the other argument positions next to a case
// value: indices and counts, the empty text, an ASCII letter, a delimiter, a flag.
var CaseCompanions = []string{"n:0", "n:1", "n:-1", "t:", "t:a", "t:blank", "b:true"}

// CaseCore / CaseCoreCompanions are the smaller alphabets of the highest arity of a tier.
var CaseCore = []string{caseLabel("İstanbul"), caseLabel("istanbul"), caseLabel(kelvin), caseLabel("k")}
var CaseCoreCompanions = []string{"n:0", "n:1", "t:a"}

// CaseMaxArity is the highest arity at which sub-space (vi) is enumerated; at that arity the core is used.
func CaseMaxArity(tier string) int {
	if tier == "thorough" {
		return 5
	}
	return 4
}

func (g Group) caseAlpha() bool { return g.Alpha == "case" || g.Alpha == "casecore" }

// caseSplit gives the value ids of a case group: the companions (the "benign" part of the tupler) and
// the case values (the part of which every tuple has at least one).
func caseSplit(alpha string) (companions, caseIDs []int) {
	if alpha == "casecore" {
		return idsOf(CaseCoreCompanions), idsOf(CaseCore)
	}
	caseIDs = make([]int, len(CaseVals))
	for i, v := range CaseVals {
		caseIDs[i] = valIndex[v.Label]
	}
	return idsOf(CaseCompanions), caseIDs
}

// caseTuples is the number of tuples of a case alphabet at an arity (for the Rule).
func caseTuples(alpha string, arity int) int {
	c, v := caseSplit(alpha)
	return ipow(len(c)+len(v), arity) - ipow(len(c), arity)
}

// casePairProblems checks, against the standard library the harness is built with, that the pairs
// still are what the sub-space is about (a vacuity guard: the Unicode tables are not ours).
func casePairProblems() []string {
	var f []string
	grows, shrinks, foldOnly, lowerOnly := false, false, false, false
	for _, p := range CasePairs {
		a, b := p[0], p[1]
		if !utf8.ValidString(a) || !utf8.ValidString(b) {
			f = append(f, fmt.Sprintf("case pair %q / %q is not valid UTF-8", a, b))
		}
		if strings.ToLower(a) != strings.ToLower(b) || len(a) == len(b) {
			f = append(f, fmt.Sprintf("case pair %q / %q: not equal when lower-cased, or of the same byte length", a, b))
		}
		if len(strings.ToLower(a)) > len(a) {
			grows = true
		}
		if len(strings.ToLower(a)) < len(a) {
			shrinks = true
		}
		if strings.EqualFold(a, b) {
			foldOnly = true
		} else {
			lowerOnly = true
		}
	}
	if !grows || !shrinks {
		f = append(f, "case pairs: lower-casing must grow one text and shrink another")
	}
	if !foldOnly || !lowerOnly {
		f = append(f, "case pairs: need one pair that EqualFold accepts and one that only ToLower makes equal")
	}
	return f
}
