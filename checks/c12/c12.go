// Package c12: (not built yet)
package c12
