// Package c12: literal template text and string literals are represented faithfully; the template
// scanner and the expression parser agree on where an expression ends.
//
// Exploration: every string up to a length bound over an 11-character alphabet is (i) evaluated as
// template text and compared with the statement's rule (a small reference function), and (ii) written
// as a quoted, escaped literal into six expression positions and evaluated; every pair of shorter
// strings is written into three two-literal positions.
//
// Further families (each in its own file): L long values written by the library's own literal
// writer (longlit.go); V every template text also evaluated through Evaluator.TemplateValue, the
// second way a template is evaluated (value.go); M marker code points - valid code points that
// readers and decoders give a meaning of their own, such as U+FFFD - in every position of short
// strings (markers.go); R one Evaluator reused under sequences of contexts that differ in their
// allowed top-level names (reuse.go); U templates that break off inside an expression - inside a
// call, inside a string literal, right after a backslash - behind every kind of neighbour (unclosed.go).
package c12

import (
	"encoding/json"
	"fmt"
	"math/rand"
	"sort"
	"strconv"
	"strings"
	"time"

	"verif/mc"
)

type bounds struct{ single, pairS, pairT int }

func boundsOf(tier string) bounds {
	if tier == "quick" {
		return bounds{6, 3, 3}
	}
	return bounds{7, 4, 3}
}

// allStrings returns every string of exactly n characters over the alphabet, in index order.
func allStrings(n int) []string {
	out := []string{""}
	for i := 0; i < n; i++ {
		next := make([]string, 0, len(out)*len(alphabet))
		for _, p := range out {
			for _, r := range alphabet {
				next = append(next, p+string(r))
			}
		}
		out = next
	}
	return out
}

type replay struct {
	Kind     string   `json:"kind"` // body | literal | value | reuse
	Form     string   `json:"form,omitempty"`
	Pair     bool     `json:"pair,omitempty"`
	S        string   `json:"s"`
	T        string   `json:"t,omitempty"`
	Template string   `json:"template,omitempty"`
	Key      string   `json:"key,omitempty"`
	Seq      []string `json:"seq,omitempty"` // reuse: the contexts (by their allowed names) in call order
}

// shrinker finds, for a failing case, a case from which no single character can be deleted without
// that kind of failure (its class) disappearing. known holds the verdicts of the cases already
// executed in this unit of the enumeration (shorter cases come first), everything else is executed
// on demand. A verdict is the set of failure classes the case shows.
type shrinker struct {
	eval  func(string) []string
	known map[string][]string
	min   map[string]string
}

func newShrinker(eval func(string) []string) *shrinker {
	return &shrinker{eval: eval, known: map[string][]string{}, min: map[string]string{}}
}

func (k *shrinker) reset() { k.known, k.min = map[string][]string{}, map[string]string{} }

func has(classes []string, class string) bool {
	for _, c := range classes {
		if c == class {
			return true
		}
	}
	return false
}

func (k *shrinker) failing(s, class string) bool {
	v, ok := k.known[s]
	if !ok {
		v = k.eval(s)
		k.known[s] = v
	}
	return has(v, class)
}

func (k *shrinker) minimal(s, class string) string {
	mk := class + "\x01" + s
	if m, ok := k.min[mk]; ok {
		return m
	}
	r := []rune(s)
	res := s
	for i := range r {
		if r[i] == 0 {
			continue // the separator of a pair case is not a character of the case
		}
		s2 := string(r[:i]) + string(r[i+1:])
		if k.failing(s2, class) {
			res = k.minimal(s2, class)
			break
		}
	}
	if res == s {
		// no single character can go: try two at once (a pair of parentheses, a quote and its backslash)
	outer:
		for i := range r {
			for j := i + 1; j < len(r); j++ {
				if r[i] == 0 || r[j] == 0 {
					continue
				}
				s2 := string(r[:i]) + string(r[i+1:j]) + string(r[j+1:])
				if k.failing(s2, class) {
					res = k.minimal(s2, class)
					break outer
				}
			}
		}
	}
	k.min[mk] = res
	return res
}

type runner struct {
	c        *mc.Ctx
	symCases map[rune]int64
	facts    map[string]int64
	keys     map[string]bool
}

func (r *runner) fact(name string) { r.facts[name]++ }

func special(s string) bool { return strings.ContainsAny(s, "\"\\()@") }

func (r *runner) noteString(s string, n int64) {
	seen := map[rune]bool{}
	for _, ch := range s {
		if !seen[ch] {
			seen[ch] = true
			r.symCases[ch] += n
		}
	}
	if s == "" {
		r.fact("string:empty")
	}
	if strings.Contains(s, `"`) {
		r.fact("string:has-quote")
	}
	if strings.Contains(s, `\`) {
		r.fact("string:has-backslash")
	}
	if strings.HasSuffix(s, `\`) {
		r.fact("string:ends-with-backslash")
	}
	if strings.HasSuffix(s, `\\`) {
		r.fact("string:ends-with-two-backslashes")
	}
	if strings.Contains(s, `\n`) {
		r.fact("string:has-backslash-then-letter")
	}
	if strings.ContainsAny(s, "()") {
		r.fact("string:has-parenthesis")
	}
	if strings.Contains(s, "@") {
		r.fact("string:has-at")
	}
	if strings.Contains(s, "\n") {
		r.fact("string:has-newline")
	}
	if strings.Contains(s, "\x01") {
		r.fact("string:has-control-character")
	}
	if strings.Contains(s, "é") {
		r.fact("string:has-non-ascii")
	}
	if strings.ContainsRune(s, 0x1F600) {
		r.fact("string:has-non-bmp")
	}
}

func (r *runner) violation(key, what string, rp replay) {
	if !r.keys[key] && len(r.keys) >= 300 {
		key = "overflow:more-than-300-distinct-signatures-in-one-worker"
	}
	r.keys[key] = true
	rp.Key = key
	r.c.Violation(key, what, rp)
}

// ---- template text ----------------------------------------------------------------------------------

func (r *runner) body(s string, sh *shrinker) {
	c := r.c
	c.Inc("evaluations")
	c.Inc("cases:template-text")
	if special(s) {
		c.Inc("distinct_nontrivial")
	}
	f := checkBody(s)
	sh.known[s] = nil
	if f != nil {
		sh.known[s] = []string{f.class}
	}
	// what kind of text was it (vacuity facts), by the reference
	if strings.Contains(s, "@") {
		_, exact, exprs := refTemplate(baseCtx, s)
		if !exact {
			r.fact("text:unclosed-expression")
		}
		for _, e := range exprs {
			_, ok := evalExpression(baseCtx, e.expr)
			switch {
			case e.ident && ok:
				r.fact("text:identifier-evaluated")
			case e.ident:
				r.fact("text:identifier-fails")
			case ok:
				r.fact("text:expression-evaluated")
				if strings.Contains(e.expr, `"`) {
					r.fact("text:expression-with-string-literal-evaluated")
				}
				if strings.Contains(e.expr, `\`) {
					r.fact("text:expression-with-backslash-evaluated")
				}
			default:
				r.fact("text:expression-fails")
			}
		}
		if strings.Contains(s, "@@") {
			r.fact("text:double-at")
		}
		if strings.Contains(s, "@é") || strings.Contains(s, "@né") {
			r.fact("text:at-before-name-that-is-not-allowed")
		}
		if strings.HasSuffix(s, "@") {
			r.fact("text:at-at-end")
		}
		if strings.Contains(s, "@.") || strings.Contains(s, "@\n") || strings.Contains(s, "@\"") {
			r.fact("text:at-before-other-character")
		}
		if len(exprs) == 0 && exact {
			c.Outcome("text:literal-at-only")
		} else if exact {
			c.Outcome("text:with-expressions")
		} else {
			c.Outcome("text:unclosed")
		}
	} else {
		c.Outcome("text:no-at")
	}
	if f == nil {
		return
	}
	m := sh.minimal(s, f.class)
	key := "text:" + f.class + ":min=" + strconv.Quote(m)
	c.Outcome("text:FAIL:" + f.class)
	r.violation(key, f.what+"\nsmallest failing text of this shape: "+strconv.Quote(m), replay{Kind: "body", S: s, Template: s})
}

// ---- literals ---------------------------------------------------------------------------------------

// failures runs every position of one kind (one literal / two literals) and returns the distinct
// failure classes with the first failure of each.
func failures(pair bool, s, t string, each func(f *form, fl *failure)) (classes []string, first map[string]*failure, firstForm map[string]*form) {
	for i := range forms {
		f := &forms[i]
		if f.pair != pair {
			continue
		}
		fl := checkLiteral(f, s, t)
		if each != nil {
			each(f, fl)
		}
		if fl != nil && !has(classes, fl.class) {
			classes = append(classes, fl.class)
			if first == nil {
				first, firstForm = map[string]*failure{}, map[string]*form{}
			}
			first[fl.class], firstForm[fl.class] = fl, f
		}
	}
	return
}

func splitPair(st string) (string, string) {
	i := strings.IndexByte(st, 0)
	return st[:i], st[i+1:]
}

// minSet renders the smallest failing strings as a set (which of two literals holds which string is
// not part of the signature).
func minSet(parts ...string) string {
	var q []string
	for _, p := range parts {
		if p != "" && !has(q, strconv.Quote(p)) {
			q = append(q, strconv.Quote(p))
		}
	}
	sort.Strings(q)
	return "{" + strings.Join(q, ",") + "}"
}

func (r *runner) single(s string, sh *shrinker) {
	c := r.c
	n := int64(0)
	classes, first, firstForm := failures(false, s, "", func(f *form, fl *failure) {
		n++
		if fl != nil {
			c.Outcome("literal:FAIL:" + fl.class)
		} else {
			c.Outcome("literal:ok")
		}
	})
	c.Add("evaluations", n)
	c.Add("cases:one-literal", n)
	if special(s) {
		c.Add("distinct_nontrivial", n)
	}
	r.noteString(s, n+1)
	sh.known[s] = classes
	for _, cl := range classes {
		m := sh.minimal(s, cl)
		r.violation("literal:"+cl+":min="+minSet(m), first[cl].what+"\nsmallest string that fails in this way: "+strconv.Quote(m), replay{Kind: "literal", Form: firstForm[cl].name, S: s})
	}
}

func (r *runner) pair(s, t string, sh *shrinker) {
	c := r.c
	n := int64(0)
	classes, first, firstForm := failures(true, s, t, func(f *form, fl *failure) {
		n++
		if fl != nil {
			c.Outcome("pair:FAIL:" + fl.class)
		} else {
			c.Outcome("pair:ok")
		}
	})
	c.Add("evaluations", n)
	c.Add("cases:two-literals", n)
	if special(s) || special(t) {
		c.Add("distinct_nontrivial", n)
	}
	if strings.HasSuffix(s, `\`) && t != "" {
		r.fact("pair:first-ends-with-backslash")
	}
	if strings.HasSuffix(t, `\`) {
		r.fact("pair:second-ends-with-backslash")
	}
	if s == t && s != "" {
		r.fact("pair:equal-nonempty")
	}
	if strings.Contains(s, `"`) && strings.Contains(t, `"`) {
		r.fact("pair:both-contain-quotes")
	}
	sh.known[s+"\x00"+t] = classes
	for _, cl := range classes {
		ms, mt := splitPair(sh.minimal(s+"\x00"+t, cl))
		r.violation("literal:"+cl+":min="+minSet(ms, mt), first[cl].what+"\nsmallest strings that fail in this way: "+strconv.Quote(ms)+" and "+strconv.Quote(mt), replay{Kind: "literal", Form: firstForm[cl].name, Pair: true, S: s, T: t})
	}
}

func run(c *mc.Ctx) {
	runLongLiterals(c)
	b := boundsOf(c.Tier)
	r := &runner{c: c, symCases: map[rune]int64{}, facts: map[string]int64{}, keys: map[string]bool{}}
	c.Add("evaluations", 0)
	bodySh := newShrinker(func(s string) []string {
		if f := checkBody(s); f != nil {
			return []string{f.class}
		}
		return nil
	})
	litSh := newShrinker(func(s string) []string { cl, _, _ := failures(false, s, "", nil); return cl })
	pairSh := newShrinker(func(st string) []string { s, t := splitPair(st); cl, _, _ := failures(true, s, t, nil); return cl })
	valSh := newValueShrinker()

	// the unit of work is a suffix: all strings ending in it, shortest first, so that the case with
	// one character of the prefix deleted has already been executed by the same worker
	byLen := make([][]string, 8)
	for n := 0; n <= 4; n++ {
		byLen[n] = allStrings(n)
	}
	unit := 0
	perm := func(n int) []int {
		p := make([]int, n)
		for i := range p {
			p[i] = i
		}
		if c.Seed != 0 {
			rand.New(rand.NewSource(c.Seed)).Shuffle(n, func(i, j int) { p[i], p[j] = p[j], p[i] })
		}
		return p
	}
	for n := 0; n < 3 && n <= b.single; n++ {
		for _, s := range byLen[n] {
			unit++
			if !c.Mine(unit) {
				continue
			}
			bodySh.reset()
			litSh.reset()
			valSh.reset()
			r.body(s, bodySh)
			r.value(s, valSh)
			r.single(s, litSh)
		}
	}
	capped := false
	suffixes := byLen[3]
	for _, ui := range perm(len(suffixes)) {
		if !c.Mine(ui) {
			continue
		}
		if c.Expired() {
			capped = true
			break
		}
		u := suffixes[ui]
		bodySh.reset()
		litSh.reset()
		valSh.reset()
		var gen func(p string, left int)
		gen = func(p string, left int) {
			if left == 0 {
				s := p + u
				r.body(s, bodySh)
				r.value(s, valSh)
				r.single(s, litSh)
				return
			}
			for _, ch := range alphabet {
				gen(p+string(ch), left-1)
			}
		}
		for pl := 0; pl+3 <= b.single; pl++ {
			gen("", pl)
		}
		c.Inc("suffix_units")
	}

	// pairs: the unit is the second string
	var ts []string
	for n := 0; n <= b.pairT; n++ {
		ts = append(ts, byLen[n]...)
	}
	for _, ti := range perm(len(ts)) {
		if capped {
			break
		}
		if !c.Mine(ti) {
			continue
		}
		if c.Expired() {
			capped = true
			break
		}
		t := ts[ti]
		pairSh.reset()
		for n := 0; n <= b.pairS; n++ {
			for _, s := range byLen[n] {
				r.pair(s, t, pairSh)
			}
		}
		c.Inc("pair_units")
	}
	// family M: marker code points; family R: one Evaluator under several contexts
	if !capped {
		capped = r.runMarkers(bodySh, litSh, valSh)
	}
	if !capped {
		capped = r.runReuse()
	}
	// family U: templates that break off inside an expression
	if !capped {
		capped = r.runUnclosed(bodySh, valSh)
	}
	if capped {
		c.Cap("time budget reached: units (all strings with one 3-character suffix; all first strings for one second string; all strings with one marker code point and one first character; all strings with one 2-character suffix under every sequence of contexts; all tails with one last character behind one head and one opener) are taken in a fixed order and every unit started before the cap was completed")
	}
	for ch, n := range r.symCases {
		c.Add("symbol:"+strconv.QuoteRune(ch), n)
		c.Fact("symbol:" + strconv.QuoteRune(ch))
	}
	for f, n := range r.facts {
		c.Add("fact:"+f, n)
		c.Fact(f)
	}
}

func replayFn(c *mc.Ctx, raw json.RawMessage) (string, bool) {
	if out, violated, mine := replayLong(raw); mine {
		return out, violated
	}
	var rp replay
	if err := json.Unmarshal(raw, &rp); err != nil {
		return "bad replay: " + err.Error(), false
	}
	if rp.Kind == "reuse" {
		return replayReuse(rp)
	}
	if rp.Kind == "value" {
		f, ref := checkValue(evalr, baseWorld, rp.S)
		var v any
		mc.Guard(func() { v, _, _ = evalr.TemplateValue(env, baseCtx, rp.S) })
		desc := fmt.Sprintf("template text %q\nEvaluator.TemplateValue: %T %v\nstatement's rule: one expression and nothing else: %v (expression %q, evaluates: %v); text %q (every `@(` closed: %v)\n", rp.S, v, v, ref.single, ref.expr, ref.ok, ref.text, ref.exact)
		if f != nil {
			desc += "PROBLEM " + f.class + ": " + f.what + "\n"
		}
		return desc, f != nil
	}
	if rp.Kind == "body" {
		out, failed, pn := evalTemplate(baseCtx, rp.S)
		ref := refOf(baseWorld, rp.S)
		desc := fmt.Sprintf("template text %q\nEvaluator.Template: %q (error: %v) %s\nstatement's rule:   %q (every `@(` closed: %v)\nscanner tokens: %s\n", rp.S, out, failed, pn, ref.want, ref.exact, describeToks(scan(rp.S)))
		if !ref.exact {
			desc += "with the unclosed `@(` and what follows it passed through as text: " + quoteAll(ref.alts) + "\nscanner pieces put back together: " + strconv.Quote(reassemble(rp.S)) + "\n"
		}
		f := checkBody(rp.S)
		if f != nil {
			desc += "PROBLEM " + f.class + ": " + f.what + "\n"
		}
		return desc, f != nil
	}
	var desc strings.Builder
	violated := false
	for i := range forms {
		f := &forms[i]
		if f.pair != rp.Pair {
			continue
		}
		fl := checkLiteral(f, rp.S, rp.T)
		if fl != nil {
			fmt.Fprintf(&desc, "PROBLEM %s: %s\n", fl.class, fl.what)
			violated = true
		} else {
			fmt.Fprintf(&desc, "form %s with s=%q t=%q: as expected\n", f.name, rp.S, rp.T)
		}
	}
	return desc.String(), violated
}

func guards(r *mc.Result, tier string) []string {
	var f []string
	for _, ch := range alphabet {
		if r.Facts["symbol:"+strconv.QuoteRune(ch)] == 0 {
			f = append(f, "no case contained the character "+strconv.QuoteRune(ch))
		}
	}
	for _, fact := range []string{
		"string:empty", "string:has-quote", "string:has-backslash", "string:ends-with-backslash", "string:ends-with-two-backslashes", "string:has-backslash-then-letter", "string:has-parenthesis",
		"string:has-at", "string:has-newline", "string:has-control-character", "string:has-non-ascii", "string:has-non-bmp",
		"text:unclosed-expression", "text:identifier-evaluated", "text:identifier-fails", "text:expression-evaluated", "text:expression-fails",
		"text:expression-with-string-literal-evaluated", "text:double-at", "text:at-before-name-that-is-not-allowed", "text:at-at-end", "text:at-before-other-character",
		"pair:first-ends-with-backslash", "pair:second-ends-with-backslash", "pair:equal-nonempty", "pair:both-contain-quotes",
		"value:whitespace-trimmed", "value:single-identifier-evaluated", "value:single-expression-evaluated", "value:single-expression-fails", "value:unclosed-expression",
		"value:expression-then-text-ending-in-parenthesis", "value:two-expressions", "value:two-identifiers", "value:no-at",
		"marker:next-to-special-character",
		"unclosed:tail-closes-the-expression", "unclosed:ends-in-literal-after-unescaped-backslash", "unclosed:ends-in-literal-after-escaped-backslash", "unclosed:ends-in-literal-after-escaped-quote",
		"unclosed:ends-in-literal-after-parenthesis", "unclosed:ends-in-literal-after-opening-quote", "unclosed:ends-in-literal-after-other-character", "unclosed:ends-after-closed-literal",
		"unclosed:ends-after-inner-closing-parenthesis", "unclosed:ends-after-backslash-outside-literal", "unclosed:ends-outside-literal-after-other-character", "unclosed:several-parentheses-open",
		"unclosed:after-other-text-or-expressions", "unclosed:at-sign-after-the-unclosed-opening", "unclosed:second-opening-after-the-unclosed-opening",
		"reuse:text-means-different-things-in-different-contexts", "reuse:name-allowed-in-one-context-only", "reuse:has-expression",
	} {
		if r.Facts[fact] == 0 {
			f = append(f, "never observed: "+fact)
		}
	}
	for _, m := range markers {
		if r.Facts["marker:"+strconv.QuoteRuneToASCII(m)] == 0 || r.Facts["symbol:"+strconv.QuoteRune(m)] == 0 {
			f = append(f, "no case contained the marker code point "+strconv.QuoteRuneToASCII(m))
		}
	}
	for _, k := range []string{"cases:template-text", "cases:one-literal", "cases:two-literals", "cases:template-value", "cases:reused-evaluator", "marker_strings", "cases:unclosed-tail"} {
		if r.Counters[k] < 100000 {
			f = append(f, fmt.Sprintf("counter %s = %d, expected at least 100000", k, r.Counters[k]))
		}
	}
	return f
}

func init() {
	mc.Register(&mc.Check{
		ID:    "C12",
		Level: "exploration",
		Rule: "every string of length <= 6 (quick) / 7 (thorough) over the 11 characters {quote, backslash, (, ), @, n, U+0001, newline, é, U+1F600, .} is (i) evaluated as template text by Evaluator.Template in a context binding n and compared with the statement's rule (reference function: `@@` -> `@`; `@(`..matching `)` and `@`+allowed name are expressions; any other `@` literal; where each expression's value comes from the real evaluator) and each expression the scanner cuts is checked against the parser's lexer for closedness; " +
			"(V) evaluated the second way a template is evaluated, Evaluator.TemplateValue, and compared with the same rule applied to the whitespace-trimmed text (exactly one expression and nothing else: that expression's value, an error value if it fails; anything else: the rule's text as a text value); " +
			"(ii) written with strconv.Quote into `@(Q)`, the value of `@(Q)` (TemplateValue), `x @(Q) y`, `@n@(Q)@n`, `@(Q)@(Q)`, `@(f(Q))`, `@(o[Q])` and expected to evaluate to exactly the string; (iii) every pair of strings of length <= 3 x <= 3 (quick) / <= 4 x <= 3 (thorough) is written into `@(Q & T)`, `@(Q = T)`, `@(f(Q, T))`. " +
			"(L) values of 21 lengths around every plausible internal limit (63..10001) of 9 kinds of character written by TextLiteral.String(), parsed, evaluated and printed again. " +
			"(M) for each of 18 marker code points that readers, decoders and lexers give a meaning of their own (U+FFFD the decoder's error marker, U+FEFF, U+FFFE, U+FFFF, U+10FFFF, U+D7FF, U+E000, U+00FF, U+0080, U+007F, U+001A, U+0004, the white space U+0085 U+00A0 U+2028 the lexer does not know, CR, TAB, space): every string of length 1..4 (quick) / 1..5 (thorough) over the 11 characters + the marker that contains the marker goes through (i), (V) and the one-literal positions of (ii), and is also evaluated as template text and for its value standing unescaped inside a literal, `@(\"`+s+`\")`, and breaking off inside that literal, `@(\"`+s. " +
			"(R) one Evaluator, several contexts: every string of length 1..4 (quick) / 1..5 (thorough) over the 11 characters is evaluated by Evaluator.Template on ONE fresh Evaluator under every ordered sequence of 2 contexts (thorough: also of 3, for length <= 4) out of 3 contexts that differ in their allowed top-level names ({n,f}, {é,f}, {f}); every call of the sequence is compared with the statement's rule for the context of that call. " +
			"evaluations = executed cases (string x position; R: calls); distinct_nontrivial = cases whose string(s) contain at least one of quote, backslash, parenthesis, @ (every case is a different template; R: a different template or a different history of calls).",
		Assumptions: []string{
			"bounded: alphabet and lengths as stated; allowed top-level names are n and f (family R: three contexts allowing {n,f}, {é,f}, {f}); one environment",
			"'written as a quoted, escaped string literal' is read as Go's strconv.Quote, the form goflow itself prints literals in",
			"an `@(` that is never closed (reference rule: parentheses counted outside string literals, a backslash inside a literal escapes exactly the next character) opens no expression: it and what follows it is template text and passes through. Whether an `@@`, `@name` or closed `@(..)` AFTER it is still read as template text is not said by the statement: both outputs are accepted (the rest exactly as written; `@(` literal and the rest by the statement's rule again), any other output - a character added, lost or changed - is a violation",
			"an expression that fails contributes nothing to the output (Evaluator.Template's documented behaviour); the body around it is still compared",
			"Evaluator.TemplateValue is defined on the whitespace-trimmed template (strings.TrimSpace, its first statement) and, by its own description, equals Template except when the template is a single identifier or expression: the statement's rule is applied to the trimmed text",
			"NUL is excluded by the statement and is not a marker code point",
		},
		Run:    run,
		Replay: replayFn,
		Guards: guards,
		Budget: map[string]time.Duration{"quick": 12 * time.Minute, "thorough": 45 * time.Minute}, // caps only: the machine is shared, normal runs take a fraction
	})
}
