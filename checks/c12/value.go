package c12

import (
	"fmt"
	"strconv"
	"strings"

	"github.com/nyaruka/goflow/excellent"
	"github.com/nyaruka/goflow/excellent/types"
	"verif/mc"
)

// Family V (the second way a template is evaluated). Evaluator.TemplateValue is what the engine
// uses wherever a template may yield a typed value; by its own description it "is equivalent to
// Template except in the case where the template contains a single identifier or expression", where
// the value of that expression is returned. So the statement's rule applies to it unchanged: the text
// outside expressions passes through, and where the one expression ends is decided by the same
// reference rule (matchParen). Every template text of families (i) and M is also evaluated through it.
//
// What is compared (on the whitespace-trimmed text, which is what TemplateValue is defined on):
//   - the statement's rule finds exactly one expression and nothing else: the value is that
//     expression's value (an error value if it fails; its text otherwise);
//   - anything else: the value is a text, the one the statement's rule gives (before an unclosed
//     `@(`: a text that starts with it and goes on with the `@(` and what follows it, passed through
//     as the statement's rule for template text says - see refText).

// refValue is what the statement's rule says TemplateValue(t) is in world w.
type refValue struct {
	single bool   // exactly one expression and nothing else
	expr   string // that expression
	ident  bool
	ok     bool   // the expression evaluates (single only)
	text   string // the value's text (single && ok) / the template's text
	exact  bool   // false: the text has an `@(` that is never closed; text is the output before it
	alts   []string // !exact: the complete texts the statement allows (see refText)
}

func refTemplateValue(w *world, t string) refValue {
	tt := strings.TrimSpace(t)
	rt := refOf(w, tt)
	want, exact, exprs := rt.want, rt.exact, rt.exprs
	if exact && len(exprs) == 1 {
		e := exprs[0]
		if (e.ident && tt == "@"+e.expr) || (!e.ident && tt == "@("+e.expr+")") {
			v, ok := evalExpression(w.ctx, e.expr)
			return refValue{single: true, expr: e.expr, ident: e.ident, ok: ok, text: v, exact: true}
		}
	}
	return refValue{text: want, exact: exact, alts: rt.alts}
}

// checkValue evaluates template text t through TemplateValue on the given Evaluator and compares.
func checkValue(ev *excellent.Evaluator, w *world, t string) (*failure, refValue) {
	var v types.XValue
	pn := mc.Guard(func() { v, _, _ = ev.TemplateValue(env, w.ctx, t) })
	ref := refTemplateValue(w, t)
	if pn != "" {
		return &failure{"panic:" + mc.PanicSite(pn), fmt.Sprintf("Evaluator.TemplateValue(%q) panics: %s", t, pn)}, ref
	}
	show := func() string {
		if v == nil {
			return "nil"
		}
		return fmt.Sprintf("%T %s", v, strconv.Quote(types.Render(v)))
	}
	if v == nil {
		return &failure{"no-value", fmt.Sprintf("TemplateValue(%q) returns no value at all", t)}, ref
	}
	if ref.single {
		switch {
		case ref.ok && types.IsXError(v):
			return &failure{"single-expression:error-value", fmt.Sprintf("TemplateValue(%q): the template is the one expression %q, which evaluates to the text %q, but the value is %s", t, ref.expr, ref.text, show())}, ref
		case ref.ok:
			got, _ := types.ToXText(env, v)
			if got.Native() != ref.text {
				return &failure{"single-expression:wrong-value", fmt.Sprintf("TemplateValue(%q): the template is the one expression %q, which evaluates to the text %q, but the value is %s", t, ref.expr, ref.text, show())}, ref
			}
		case !types.IsXError(v):
			return &failure{"single-expression:value-for-failing-expression", fmt.Sprintf("TemplateValue(%q): the template is the one expression %q, which fails, but the value is %s", t, ref.expr, show())}, ref
		}
		return nil, ref
	}
	txt, isText := v.(*types.XText)
	switch {
	case types.IsXError(v):
		return &failure{"error-value-for-text-template", fmt.Sprintf("TemplateValue(%q): by the statement's rule the template is more than one expression and its text is %q (every `@(` closed: %v), but the value is %s", t, ref.text, ref.exact, show())}, ref
	case !isText:
		return &failure{"typed-value-for-text-template", fmt.Sprintf("TemplateValue(%q): by the statement's rule the template is more than one expression and its text is %q (every `@(` closed: %v), but the value is %s", t, ref.text, ref.exact, show())}, ref
	case ref.exact && txt.Native() != ref.text:
		return &failure{"wrong-text", fmt.Sprintf("TemplateValue(%q) is the text %q, the statement's rule gives %q", t, txt.Native(), ref.text)}, ref
	case !ref.exact && !strings.HasPrefix(txt.Native(), ref.text):
		return &failure{"wrong-text-before-unclosed-expression", fmt.Sprintf("TemplateValue(%q) is the text %q, the statement's rule gives %q before the unclosed `@(`", t, txt.Native(), ref.text)}, ref
	case !ref.exact && !has(ref.alts, txt.Native()):
		kind, nearest := deviation(txt.Native(), ref.alts)
		return &failure{"unclosed-expression-text:" + kind, fmt.Sprintf("TemplateValue(%q): the text has an `@(` that is never closed, which is text and passes through: the value is the text %q, the statement's rule gives %q (accepted readings of the text after the `@(`: %s)", t, txt.Native(), nearest, quoteAll(ref.alts))}, ref
	}
	return nil, ref
}

// value runs one template text through TemplateValue (family V).
func (r *runner) value(s string, sh *shrinker) {
	c := r.c
	c.Inc("evaluations")
	c.Inc("cases:template-value")
	if special(s) {
		c.Inc("distinct_nontrivial")
	}
	f, ref := checkValue(evalr, baseWorld, s)
	sh.known[s] = nil
	if f != nil {
		sh.known[s] = []string{f.class}
	}
	tt := strings.TrimSpace(s)
	if tt != s {
		r.fact("value:whitespace-trimmed")
	}
	switch {
	case ref.single && ref.ident && ref.ok:
		r.fact("value:single-identifier-evaluated")
		c.Outcome("value:single-ok")
	case ref.single && ref.ok:
		r.fact("value:single-expression-evaluated")
		c.Outcome("value:single-ok")
	case ref.single:
		r.fact("value:single-expression-fails")
		c.Outcome("value:single-fails")
	case !ref.exact:
		r.fact("value:unclosed-expression")
		c.Outcome("value:text")
	default:
		c.Outcome("value:text")
		if strings.HasPrefix(tt, "@(") && strings.HasSuffix(tt, ")") {
			r.fact("value:expression-then-text-ending-in-parenthesis")
		}
		if strings.HasPrefix(tt, "@(") && strings.Count(tt, "@(") >= 2 {
			r.fact("value:two-expressions")
		}
		if strings.HasPrefix(tt, "@n") && strings.Contains(tt[1:], "@n") {
			r.fact("value:two-identifiers")
		}
		if !strings.Contains(tt, "@") {
			r.fact("value:no-at")
		}
	}
	if f == nil {
		return
	}
	m := sh.minimal(s, f.class)
	c.Outcome("value:FAIL:" + f.class)
	r.violation("value:"+f.class+":min="+strconv.Quote(m), f.what+"\nsmallest failing text of this shape: "+strconv.Quote(m), replay{Kind: "value", S: s, Template: s})
}

func newValueShrinker() *shrinker {
	return newShrinker(func(s string) []string {
		if f, _ := checkValue(evalr, baseWorld, s); f != nil {
			return []string{f.class}
		}
		return nil
	})
}
