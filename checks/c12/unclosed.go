package c12

import (
	"strings"
)

// Family U (templates that break off inside an expression). An `@(` that is never closed opens no
// expression: it and what follows it is template text and passes through unchanged, and the scanner
// and the parser have to agree that nothing ends there. The scanner reads such a text to the end of
// the input in its expression state - inside parentheses, inside a string literal, right after a
// backslash - so the end of the input meets every state the scanner has. Family (i) reaches these
// texts only as far as its length bound goes (`@(` + 4 characters); here the break-off point is put
// behind every kind of opening, next to every kind of neighbour:
//
//	template = head + opener + tail
//
// head: what stands before the expression (nothing, text, an identifier, a closed expression with a
// string literal, an escaped `@`, an `@` that is literal because of the name after it);
// opener: how deep in the expression the tail starts (directly after `@(`, inside a string literal,
// inside a call, inside a literal inside a call, inside a second literal after an operator / after
// an argument);
// tail: EVERY string over the alphabet up to a length bound: all runs of backslashes, quotes, escaped
// quotes, parentheses and `@` the input can end with - and also the tails that close the expression
// after all, which are judged as the closed expressions they are.
//
// Every template goes through the oracles of families (i) and (V): Evaluator.Template and
// Evaluator.TemplateValue against the statement's rule (refText), the scanner's pieces put back
// together, and the parser's lexer on every candidate end.
var (
	unclosedHeads   = []string{"", "n ", "@n", `@("n")`, "@@", "@é."}
	unclosedOpeners = []string{`@(`, `@("`, `@(f(`, `@(f("`, `@("n" & "`, `@(f("n", "`}
)

func unclosedBound(tier string) int {
	if tier == "quick" {
		return 4
	}
	return 5
}

// runUnclosed: the unit of work is (head, opener, last character of the tail), tails shortest first,
// so that a shrunk case is usually known already; the empty tails are one more unit.
func (r *runner) runUnclosed(bodySh, valSh *shrinker) (capped bool) {
	c := r.c
	k := unclosedBound(c.Tier)
	byLen := make([][]string, k)
	for n := 0; n < k; n++ {
		byLen[n] = allStrings(n)
	}
	unit := 0
	for _, head := range unclosedHeads {
		for _, opener := range unclosedOpeners {
			for li := -1; li < len(alphabet); li++ {
				unit++
				if !c.Mine(unit) {
					continue
				}
				if c.Expired() {
					return true
				}
				bodySh.reset()
				valSh.reset()
				if li < 0 {
					r.unclosed(head, opener, "", bodySh, valSh)
				} else {
					for n := 0; n < k; n++ {
						for _, p := range byLen[n] {
							r.unclosed(head, opener, p+string(alphabet[li]), bodySh, valSh)
						}
					}
				}
				c.Inc("unclosed_units")
			}
		}
	}
	return false
}

func (r *runner) unclosed(head, opener, tail string, bodySh, valSh *shrinker) {
	t := head + opener + tail
	r.c.Inc("cases:unclosed-tail")
	if r.c.WantSample() && strings.HasSuffix(tail, `\`) {
		r.c.Sample(map[string]string{"family": "U", "template": t})
	}
	// where does it break off, by the reference rule
	rr := []rune(t)
	if _, at, _ := refTemplateAt(baseWorld, t); at < 0 {
		r.fact("unclosed:tail-closes-the-expression")
	} else {
		depth, inLit, pending := tailState(rr, at)
		switch {
		case pending:
			r.fact("unclosed:ends-in-literal-after-unescaped-backslash")
		case inLit && strings.HasSuffix(t, `\\`):
			r.fact("unclosed:ends-in-literal-after-escaped-backslash")
		case inLit && strings.HasSuffix(t, `\"`):
			r.fact("unclosed:ends-in-literal-after-escaped-quote")
		case inLit && strings.HasSuffix(t, `)`):
			r.fact("unclosed:ends-in-literal-after-parenthesis")
		case inLit && strings.HasSuffix(t, `"`):
			r.fact("unclosed:ends-in-literal-after-opening-quote")
		case inLit:
			r.fact("unclosed:ends-in-literal-after-other-character")
		case strings.HasSuffix(t, `"`):
			r.fact("unclosed:ends-after-closed-literal")
		case strings.HasSuffix(t, `)`):
			r.fact("unclosed:ends-after-inner-closing-parenthesis")
		case strings.HasSuffix(t, `\`):
			r.fact("unclosed:ends-after-backslash-outside-literal")
		default:
			r.fact("unclosed:ends-outside-literal-after-other-character")
		}
		if depth > 1 {
			r.fact("unclosed:several-parentheses-open")
		}
		if at > 0 {
			r.fact("unclosed:after-other-text-or-expressions")
		}
		if strings.Contains(string(rr[at+2:]), "@") {
			r.fact("unclosed:at-sign-after-the-unclosed-opening")
		}
		if strings.Contains(string(rr[at+2:]), "@(") {
			r.fact("unclosed:second-opening-after-the-unclosed-opening")
		}
	}
	r.body(t, bodySh)
	r.value(t, valSh)
}
