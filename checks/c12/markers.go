package c12

import (
	"strconv"
	"strings"
)

// Family M (code points that readers, decoders and lexers give a meaning of their own). The main
// alphabet holds what the scanner and the lexer treat specially by design; a reader underneath them
// can treat a perfectly valid code point specially by accident: the decoder's error marker U+FFFD,
// the byte-order mark, the non-characters that stand for "no character" (U+FFFF is -1 in 16 bits,
// U+00FF is -1 in 8 bits), the largest code point, the neighbours of the surrogate range, the
// end-of-file control characters of terminals and DOS, and every kind of white space that the
// expression lexer does not know. NUL is excluded by the statement.
//
// For every marker m: every string of length 1..k over the main alphabet + m that contains m is
//   - evaluated as template text (family i) and through TemplateValue (family V),
//   - evaluated as template text inside a string literal, `@("` + s + `")`: the marker stands
//     unescaped in a literal whatever strconv.Quote would do with it (judged by the statement's rule
//     for template text, so nothing is assumed about the way a literal is written),
//   - evaluated as template text that breaks off inside that literal, `@("` + s (family U's oracle: an
//     `@(` that is never closed is text and passes through - whatever the reader makes of the marker
//     at the end of the input),
//   - written as a quoted literal into the six one-literal positions (family ii).
var markers = []rune{
	0xFFFD,          // utf8.RuneError: what a decoder returns for bytes that are not UTF-8
	0xFEFF,          // byte-order mark, dropped by many readers
	0xFFFE,          // non-character (byte-swapped BOM)
	0xFFFF,          // non-character: EOF (-1) in 16 bits
	0x10FFFF,        // unicode.MaxRune, non-character
	0xD7FF,          // last code point before the surrogates
	0xE000,          // first code point after the surrogates (private use)
	0xFF,            // ÿ: EOF (-1) in 8 bits; a letter, so it is also a name character
	0x80,            // first code point that needs two bytes; C1 control
	0x7F,            // DEL
	0x1A,            // SUB: end of file for DOS
	0x04,            // EOT: end of file for terminals
	0x85,            // NEL: white space for unicode.IsSpace, not for the lexer
	0xA0,            // no-break space: the same
	0x2028,          // LINE SEPARATOR: the same; a line end for some parsers
	'\r', '\t', ' ', // white space for the lexer too
}

func markerBound(tier string) int {
	if tier == "quick" {
		return 4
	}
	return 5
}

// markerStrings returns every string over alpha of length 1..k that starts with first and contains m.
func markerStrings(alpha []rune, first, m rune, k int) []string {
	var out []string
	var gen func(p string, has bool, left int)
	gen = func(p string, has bool, left int) {
		if has {
			out = append(out, p)
		}
		if left == 0 {
			return
		}
		for _, ch := range alpha {
			gen(p+string(ch), has || ch == m, left-1)
		}
	}
	gen(string(first), first == m, k-1)
	// shortest first, so that a shrunk case is usually known already
	byLen := make([][]string, k*4+1)
	for _, s := range out {
		n := len([]rune(s))
		byLen[n] = append(byLen[n], s)
	}
	out = out[:0]
	for _, l := range byLen {
		out = append(out, l...)
	}
	return out
}

func (r *runner) runMarkers(bodySh, litSh, valSh *shrinker) (capped bool) {
	c := r.c
	k := markerBound(c.Tier)
	for mi, m := range markers {
		alpha := append(append([]rune{}, alphabet...), m)
		for fi, first := range alpha {
			if !c.Mine(mi*len(alpha) + fi) {
				continue
			}
			if c.Expired() {
				return true
			}
			bodySh.reset()
			litSh.reset()
			valSh.reset()
			for _, s := range markerStrings(alpha, first, m, k) {
				r.body(s, bodySh)
				r.value(s, valSh)
				r.single(s, litSh)
				// unescaped inside a string literal: template text again
				w := `@("` + s + `")`
				r.body(w, bodySh)
				r.value(w, valSh)
				// and in a literal that is never closed: the text breaks off after s
				w = `@("` + s
				r.body(w, bodySh)
				r.value(w, valSh)
				c.Inc("marker_strings")
				if strings.ContainsAny(s, `"\()@`) {
					r.fact("marker:next-to-special-character")
				}
			}
			c.Fact("marker:" + strconv.QuoteRuneToASCII(m))
			c.Inc("marker_units")
		}
	}
	return false
}
