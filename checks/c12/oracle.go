package c12

import (
	"fmt"
	"strconv"
	"strings"
	"unicode"

	"github.com/antlr4-go/antlr/v4"
	gen "github.com/nyaruka/goflow/antlr/gen/excellent3"
	"github.com/nyaruka/goflow/envs"
	"github.com/nyaruka/goflow/excellent"
	"github.com/nyaruka/goflow/excellent/types"
	"verif/mc"
)

// The alphabet: everything the hand-written scanner or the generated lexer treats specially, plus
// ordinary, non-ASCII and non-BMP characters.
// The ordinary letter is n, so that backslash + letter is also a well-known escape sequence.
// Newline stands for whitespace (it is whitespace to the lexer and an ordinary character to the scanner);
// U+0001 is a control character that strconv.Quote writes as a hex escape.
var alphabet = []rune{'"', '\\', '(', ')', '@', 'n', 0x01, '\n', 'é', 0x1F600, '.'}

const (
	valA  = "<A>" // rendering of @n
	valAA = "<AA>"
)

var (
	env   = envs.NewBuilder().Build()
	evalr = excellent.NewEvaluator()
	// f renders its arguments so that their exact boundaries are visible
	fn = types.NewXFunction("f", func(env envs.Environment, args ...types.XValue) types.XValue {
		parts := make([]string, len(args))
		for i, a := range args {
			if types.IsXError(a) {
				return a
			}
			parts[i] = types.Render(a)
		}
		return types.NewXText("[" + strings.Join(parts, "|") + "]")
	})
	objA = types.NewXObject(map[string]types.XValue{
		"__default__": types.NewXText(valA),
		"n": types.NewXObject(map[string]types.XValue{
			"__default__": types.NewXText(valAA),
			"n":           types.NewXText("<A3>"),
			"é":           types.NewXText("<E3>"),
		}),
		"é": types.NewXText("<E1>"),
	})
	baseCtx = types.NewXObject(map[string]types.XValue{"n": objA, "f": fn})
	allowed = map[string]bool{"n": true, "f": true}
)

// A world is a context together with what the statement's rule needs to know about it: which
// top-level names it allows. baseWorld is the one context of the main families.
type world struct {
	name    string // the allowed top-level names, as written in signatures
	ctx     *types.XObject
	allowed map[string]bool
}

var baseWorld = &world{"n,f", baseCtx, allowed}

func isNameChar(ch rune) bool { return unicode.IsLetter(ch) || unicode.IsNumber(ch) || ch == '_' }

// evalTemplate is the observation: Evaluator.Template on the real implementation.
func evalTemplate(ctx *types.XObject, t string) (out string, failed bool, panicked string) {
	return evalTemplateWith(evalr, ctx, t)
}

// evalTemplateWith is the same observation on a given Evaluator (the families that reuse one
// Evaluator across contexts make their own).
func evalTemplateWith(ev *excellent.Evaluator, ctx *types.XObject, t string) (out string, failed bool, panicked string) {
	var err error
	panicked = mc.Guard(func() { out, _, err = ev.Template(env, ctx, t, nil) })
	return out, err != nil, panicked
}

// evalExpression gives the text an expression contributes to a template ("" and false if it fails).
func evalExpression(ctx *types.XObject, e string) (string, bool) {
	var v types.XValue
	if p := mc.Guard(func() { v, _ = evalr.Expression(env, ctx, e) }); p != "" {
		return "", false
	}
	if types.IsXError(v) {
		return "", false
	}
	t, _ := types.ToXText(env, v)
	return t.Native(), true
}

// matchParen is the reference rule for where an expression opened by `@(` ends: parentheses are
// counted outside string literals; a string literal runs from a quote to the next quote that is not
// escaped, where a backslash escapes exactly the character after it. from is the index after `@(`.
func matchParen(r []rune, from int) int {
	depth := 1
	for i := from; i < len(r); i++ {
		switch r[i] {
		case '"':
			i++
			for ; i < len(r) && r[i] != '"'; i++ {
				if r[i] == '\\' {
					i++
				}
			}
			if i >= len(r) {
				return -1
			}
		case '(':
			depth++
		case ')':
			depth--
			if depth == 0 {
				return i
			}
		}
	}
	return -1
}

type refSegment struct {
	expr  string // expression text ("" for body)
	ident bool
}

// refTemplate is the statement's rule for template text: `@@` yields `@`; `@(`...matching `)` and
// `@` + a name whose top level is allowed are expressions (their value is taken from the real
// evaluator: this function only decides what is text and where expressions end); every other `@`
// and all other text is literal. exact is false when the template has an `@(` that is never closed:
// the statement does not say what such text means, so only the output before it is specified.
func refTemplate(ctx *types.XObject, t string) (out string, exact bool, exprs []refSegment) {
	return refTemplateIn(&world{"n,f", ctx, allowed}, t)
}

// refTemplateIn is the statement's rule in a given world (context + its allowed top-level names).
func refTemplateIn(w *world, t string) (out string, exact bool, exprs []refSegment) {
	out, at, exprs := refTemplateAt(w, t)
	return out, at < 0, exprs
}

// refTemplateAt is refTemplateIn which also says where the `@(` that is never closed stands (index in
// runes, -1 if every `@(` is closed): out is the output for the text before it.
func refTemplateAt(w *world, t string) (out string, at int, exprs []refSegment) {
	ctx, allowed := w.ctx, w.allowed
	r := []rune(t)
	var sb strings.Builder
	for i := 0; i < len(r); {
		if r[i] != '@' {
			sb.WriteRune(r[i])
			i++
			continue
		}
		switch {
		case i+1 < len(r) && r[i+1] == '@':
			sb.WriteRune('@')
			i += 2
		case i+1 < len(r) && r[i+1] == '(':
			j := matchParen(r, i+2)
			if j < 0 {
				return sb.String(), i, exprs
			}
			e := string(r[i+2 : j])
			v, _ := evalExpression(ctx, e)
			sb.WriteString(v)
			exprs = append(exprs, refSegment{e, false})
			i = j + 1
		case i+1 < len(r) && isNameChar(r[i+1]):
			j := i + 1
			for j < len(r) && isNameChar(r[j]) {
				j++
			}
			top := strings.ToLower(string(r[i+1 : j]))
			for j+1 < len(r) && r[j] == '.' && isNameChar(r[j+1]) {
				j += 2
				for j < len(r) && isNameChar(r[j]) {
					j++
				}
			}
			ident := string(r[i+1 : j])
			if allowed[top] {
				v, _ := evalExpression(ctx, ident)
				sb.WriteString(v)
				exprs = append(exprs, refSegment{ident, true})
			} else {
				sb.WriteString("@" + ident)
			}
			i = j
		default:
			sb.WriteRune('@')
			i++
		}
	}
	return sb.String(), -1, exprs
}

// refText is what the statement's rule says about one template text in one world.
//
// An `@(` that is never closed opens no expression, so it and what follows it is "template text
// outside expressions" and passes through. The statement leaves one thing open there: whether an
// `@@`, an `@name` or a further `@(`..`)` AFTER the unclosed `@(` is still read as template text or
// stands as it is. Both readings are accepted (alts); every character of the template is accounted
// for in either, and nothing else may appear in the output:
//   - the unclosed `@(` and everything after it stands exactly as written (what the scanner does:
//     it gives the rest of the input back as one piece of text);
//   - the two characters `@(` are literal and the text after them is template text again (by the same
//     rule, recursively).
type refText struct {
	want  string   // the output (exact) / the output for the text before the unclosed `@(`
	exact bool     // every `@(` is closed
	alts  []string // !exact: the complete outputs the statement allows
	exprs []refSegment
}

func refOf(w *world, t string) refText {
	out, at, exprs := refTemplateAt(w, t)
	ref := refText{want: out, exact: at < 0, exprs: exprs}
	if at >= 0 {
		r := []rune(t)
		ref.alts = []string{out + string(r[at:])}
		rest := refOf(w, string(r[at+2:]))
		cont := rest.alts
		if rest.exact {
			cont = []string{rest.want}
		}
		for _, c := range cont {
			if a := out + "@(" + c; !has(ref.alts, a) {
				ref.alts = append(ref.alts, a)
			}
		}
	}
	return ref
}

// tailState describes where a template that ends inside an unclosed `@(` (at rune index at) breaks
// off, by the reference rule of matchParen: how many parentheses are open, whether the end is inside a
// string literal, and whether the last character is a backslash that still waits for the character
// it escapes.
func tailState(r []rune, at int) (depth int, inLiteral, pendingEscape bool) {
	depth = 1
	for i := at + 2; i < len(r); i++ {
		switch {
		case inLiteral && r[i] == '\\':
			if i+1 >= len(r) {
				return depth, true, true
			}
			i++
		case r[i] == '"':
			inLiteral = !inLiteral
		case !inLiteral && r[i] == '(':
			depth++
		case !inLiteral && r[i] == ')':
			depth--
		}
	}
	return depth, inLiteral, false
}

// deviation names how got differs from the nearest of the accepted outputs: characters that are in
// no reading were added, characters of every reading were lost, or characters were replaced.
func deviation(got string, alts []string) (kind, nearest string) {
	best := -1
	for _, a := range alts {
		g, w := []rune(got), []rune(a)
		n := 0
		for n < len(g) && n < len(w) && g[n] == w[n] {
			n++
		}
		g, w = g[n:], w[n:]
		for len(g) > 0 && len(w) > 0 && g[len(g)-1] == w[len(w)-1] {
			g, w = g[:len(g)-1], w[:len(w)-1]
		}
		if n > best {
			best, nearest = n, a
			switch {
			case len(w) == 0:
				kind = "characters-added"
			case len(g) == 0:
				kind = "characters-lost"
			default:
				kind = "characters-changed"
			}
		}
	}
	return
}

type scanTok struct {
	typ excellent.XTokenType
	val string
}

func scan(t string) []scanTok {
	var out []scanTok
	excellent.VisitTemplate(t, []string{"n", "f", "o"}, true, func(tt excellent.XTokenType, tok string) error {
		out = append(out, scanTok{tt, tok})
		return nil
	})
	return out
}

// reassemble scans t the way the library's template rewriters do (body text as it stands, `@@` not
// unescaped) and puts the tokens back together: the scanner cuts a template into pieces, so the
// pieces are the template.
func reassemble(t string) string {
	var sb strings.Builder
	excellent.VisitTemplate(t, []string{"n", "f", "o"}, false, func(tt excellent.XTokenType, tok string) error {
		switch tt {
		case excellent.BODY:
			sb.WriteString(tok)
		case excellent.IDENTIFIER:
			sb.WriteString("@" + tok)
		case excellent.EXPRESSION:
			sb.WriteString("@(" + tok + ")")
		}
		return nil
	})
	return sb.String()
}

// lexerBalanced asks the expression parser's lexer whether e is a closed expression: parentheses
// balanced and never negative, and no quote left over as an unmatched character.
func lexerBalanced(e string) (bool, string) {
	lexer := gen.NewExcellent3Lexer(antlr.NewInputStream(e))
	lexer.RemoveErrorListeners()
	depth := 0
	for t := lexer.NextToken(); t.GetTokenType() != antlr.TokenEOF; t = lexer.NextToken() {
		switch t.GetTokenType() {
		case gen.Excellent3LexerLPAREN:
			depth++
		case gen.Excellent3LexerRPAREN:
			depth--
			if depth < 0 {
				return false, "the parser sees a closing parenthesis that ends the expression earlier"
			}
		case gen.Excellent3LexerERROR:
			if t.GetText() == `"` {
				return false, "the parser sees an unterminated string literal"
			}
		}
	}
	if depth != 0 {
		return false, "the parser sees an unclosed parenthesis"
	}
	return true, ""
}

type failure struct {
	class string // what was observed (part of the signature)
	what  string
}

// checkBody checks template text t (clause 1 of the statement and the scanner/parser agreement).
func checkBody(t string) *failure {
	out, _, pn := evalTemplate(baseCtx, t)
	ref := refOf(baseWorld, t)
	if f := judgeText(t, out, pn, ref); f != nil {
		return f
	}
	if strings.Contains(t, "@(") {
		for _, tok := range scan(t) {
			if tok.typ == excellent.EXPRESSION {
				if ok, why := lexerBalanced(tok.val); !ok {
					return &failure{"scanner-parser-disagree", fmt.Sprintf("template %q: the scanner cuts the expression %q, but %s", t, tok.val, why)}
				}
			}
		}
		if !ref.exact {
			if f := checkUnclosed(t); f != nil {
				return f
			}
		}
	}
	return nil
}

// checkUnclosed is the scanner/parser agreement for a text with an `@(` that is never closed (by the
// reference rule): the scanner gives the `@(` and what follows it back as text; then the pieces it
// cuts must still add up to the template, and the parser's lexer must not see a closed expression
// ending at any `)` after that `@(` either.
func checkUnclosed(t string) *failure {
	var pn string
	var back string
	if pn = mc.Guard(func() { back = reassemble(t) }); pn != "" {
		return &failure{"panic:" + mc.PanicSite(pn), fmt.Sprintf("scanning %q panics: %s", t, pn)}
	}
	if back != t {
		kind, _ := deviation(back, []string{t})
		return &failure{"unclosed-expression:scanner-pieces:" + kind, fmt.Sprintf("template %q has an `@(` that is never closed; the pieces the scanner cuts (body text as it stands) add up to %q, not to the template", t, back)}
	}
	_, at, _ := refTemplateAt(baseWorld, t)
	r := []rune(t)
	for j := at + 2; j < len(r); j++ {
		if r[j] != ')' {
			continue
		}
		// a `)` inside a literal ends nothing for either side: only candidates the lexer itself reads as closed count
		if ok, _ := lexerBalanced(string(r[at+2 : j])); ok {
			return &failure{"scanner-parser-disagree:unclosed", fmt.Sprintf("template %q: the scanner finds no end for the expression opened at character %d and gives it back as text, but the parser's lexer reads %q as a closed expression", t, at, string(r[at+2:j]))}
		}
	}
	return nil
}

// judgeText compares what Evaluator.Template gave for template text t (out, or the panic pn) with
// the statement's rule.
func judgeText(t, out, pn string, ref refText) *failure {
	if pn != "" {
		return &failure{"panic:" + mc.PanicSite(pn), fmt.Sprintf("Evaluator.Template(%q) panics: %s", t, pn)}
	}
	if ref.exact && out != ref.want {
		return &failure{"wrong-output", fmt.Sprintf("template %q evaluates to %q, the statement's rule gives %q", t, out, ref.want)}
	}
	if !ref.exact && !strings.HasPrefix(out, ref.want) {
		return &failure{"wrong-output-before-unclosed-expression", fmt.Sprintf("template %q evaluates to %q, the statement's rule gives %q before the unclosed `@(`", t, out, ref.want)}
	}
	if !ref.exact && !has(ref.alts, out) {
		kind, nearest := deviation(out, ref.alts)
		return &failure{"unclosed-expression-text:" + kind, fmt.Sprintf("template %q has an `@(` that is never closed, which is text and passes through: it evaluates to %q, the statement's rule gives %q (accepted readings of the text after the `@(`: %s)", t, out, nearest, quoteAll(ref.alts))}
	}
	return nil
}

func quoteAll(ss []string) string {
	q := make([]string, len(ss))
	for i, s := range ss {
		q[i] = strconv.Quote(s)
	}
	return strings.Join(q, " or ")
}

// ---- string literals ------------------------------------------------------------------------------

type form struct {
	name string
	pair bool
	// value: the template is evaluated for its value (Evaluator.TemplateValue) instead of its text
	value bool
	// build returns the template, the expected output and the tokens the scanner should cut
	build func(q, t2, s, t string) (tpl, want string, toks []scanTok)
}

func b(s string) scanTok { return scanTok{excellent.BODY, s} }
func x(s string) scanTok { return scanTok{excellent.EXPRESSION, s} }
func id(s string) scanTok {
	return scanTok{excellent.IDENTIFIER, s}
}

var forms = []form{
	{"@(Q)", false, false, func(q, _, s, _ string) (string, string, []scanTok) { return "@(" + q + ")", s, []scanTok{x(q)} }},
	{"value of @(Q)", false, true, func(q, _, s, _ string) (string, string, []scanTok) { return "@(" + q + ")", s, []scanTok{x(q)} }},
	{"x @(Q) y", false, false, func(q, _, s, _ string) (string, string, []scanTok) {
		return "x @(" + q + ") y", "x " + s + " y", []scanTok{b("x "), x(q), b(" y")}
	}},
	{"@n@(Q)@n", false, false, func(q, _, s, _ string) (string, string, []scanTok) {
		return "@n@(" + q + ")@n", valA + s + valA, []scanTok{id("n"), x(q), id("n")}
	}},
	{"@(Q)@(Q)", false, false, func(q, _, s, _ string) (string, string, []scanTok) {
		return "@(" + q + ")@(" + q + ")", s + s, []scanTok{x(q), x(q)}
	}},
	{"@(f(Q))", false, false, func(q, _, s, _ string) (string, string, []scanTok) {
		return "@(f(" + q + "))", "[" + s + "]", []scanTok{x("f(" + q + ")")}
	}},
	{"@(o[Q])", false, false, func(q, _, s, _ string) (string, string, []scanTok) {
		return "@(o[" + q + "])", "<V>", []scanTok{x("o[" + q + "]")}
	}},
	{"@(Q & T)", true, false, func(q, t2, s, t string) (string, string, []scanTok) {
		return "@(" + q + " & " + t2 + ")", s + t, []scanTok{x(q + " & " + t2)}
	}},
	{"@(Q = T)", true, false, func(q, t2, s, t string) (string, string, []scanTok) {
		return "@(" + q + " = " + t2 + ")", strconv.FormatBool(s == t), []scanTok{x(q + " = " + t2)}
	}},
	{"@(f(Q, T))", true, false, func(q, t2, s, t string) (string, string, []scanTok) {
		return "@(f(" + q + ", " + t2 + "))", "[" + s + "|" + t + "]", []scanTok{x("f(" + q + ", " + t2 + ")")}
	}},
}

func sameToks(a, b []scanTok) bool {
	if len(a) != len(b) {
		return false
	}
	for i := range a {
		if a[i] != b[i] {
			return false
		}
	}
	return true
}

func ctxFor(f *form, s string) *types.XObject {
	if f.name != "@(o[Q])" {
		return baseCtx
	}
	return types.NewXObject(map[string]types.XValue{"n": objA, "f": fn, "o": types.NewXObject(map[string]types.XValue{s: types.NewXText("<V>")})})
}

// checkLiteral checks that the string value s (and t for the pair forms), written as a quoted,
// escaped literal, evaluates to exactly itself in the given position.
func checkLiteral(f *form, s, t string) *failure {
	q, t2 := strconv.Quote(s), strconv.Quote(t)
	tpl, want, toks := f.build(q, t2, s, t)
	var out, pn string
	var failed bool
	if f.value {
		// the value must be a text (not an error, not another type) and that text is compared
		var v types.XValue
		var err error
		pn = mc.Guard(func() { v, _, err = evalr.TemplateValue(env, ctxFor(f, s), tpl) })
		if txt, isText := v.(*types.XText); isText {
			out, failed = txt.Native(), err != nil
		} else if pn == "" && v == nil {
			out, failed = "<no value>", true
		} else if pn == "" {
			out, failed = fmt.Sprintf("<%T %s>", v, types.Render(v)), true
		}
	} else {
		out, failed, pn = evalTemplate(ctxFor(f, s), tpl)
	}
	if pn != "" {
		return &failure{"panic:" + mc.PanicSite(pn), fmt.Sprintf("evaluating %q (form %s) panics: %s", tpl, f.name, pn)}
	}
	if out == want && !failed {
		return nil
	}
	// where does it go wrong: does the scanner cut the template as constructed?
	site := "parser"
	got := scan(tpl)
	if !sameToks(got, toks) {
		site = "scanner"
	}
	// the class is the site only: whether the wrong result is a wrong text or an evaluation error depends
	// on what the mis-cut pieces happen to contain
	return &failure{site, fmt.Sprintf("template %q (form %s, s=%q t=%q) evaluates to %q (error: %v), expected %q; the scanner cuts it into %s", tpl, f.name, s, t, out, failed, want, describeToks(got))}
}

func describeToks(ts []scanTok) string {
	var parts []string
	for _, t := range ts {
		n := "BODY"
		switch t.typ {
		case excellent.IDENTIFIER:
			n = "IDENTIFIER"
		case excellent.EXPRESSION:
			n = "EXPRESSION"
		}
		parts = append(parts, fmt.Sprintf("%s %q", n, t.val))
	}
	return "[" + strings.Join(parts, ", ") + "]"
}
