package c12

import (
	"fmt"
	"strconv"
	"strings"

	"github.com/nyaruka/goflow/excellent"
	"github.com/nyaruka/goflow/excellent/types"
)

// Family R (one Evaluator, several contexts). Whether `@name` is an expression or literal text
// depends on the top-level names of the context of THAT call ("an '@' that is not followed by ... an
// allowed top-level name stays literal"), and an Evaluator is a long-lived object that is handed a
// different context on every call. The main families use one Evaluator with one set of names; here
// every template text is evaluated on ONE fresh Evaluator under every ordered sequence of contexts
// from a small alphabet of contexts that differ in their top-level names, and every call of the
// sequence is compared with the statement's rule for its own context: what a call returns must not
// depend on what the Evaluator was asked before.
var worlds = []*world{
	baseWorld, // n and f
	{"é,f", types.NewXObject(map[string]types.XValue{"é": objA, "f": fn}), map[string]bool{"é": true, "f": true}},
	{"f", types.NewXObject(map[string]types.XValue{"f": fn}), map[string]bool{"f": true}},
}

type reuseBounds struct{ pairLen, tripleLen int }

func reuseBoundsOf(tier string) reuseBounds {
	if tier == "quick" {
		return reuseBounds{4, 0}
	}
	return reuseBounds{5, 4}
}

// contextSequences returns every sequence of n context indices.
func contextSequences(n int) [][]int {
	out := [][]int{{}}
	for i := 0; i < n; i++ {
		var next [][]int
		for _, p := range out {
			for w := range worlds {
				next = append(next, append(append([]int{}, p...), w))
			}
		}
		out = next
	}
	return out
}

type reuseRef = refText

// reuseStep is the verdict of one call of a sequence.
type reuseStep struct {
	f     *failure
	class string // signature part: which call, in which context, after which
}

// runSequence evaluates t on one fresh Evaluator under the contexts seq, in order, and judges every
// call; it returns the failing calls.
func runSequence(t string, seq []int, refs []reuseRef) []reuseStep {
	ev := excellent.NewEvaluator()
	var bad []reuseStep
	for i, wi := range seq {
		w := worlds[wi]
		out, _, pn := evalTemplateWith(ev, w.ctx, t)
		f := judgeText(t, out, pn, refs[wi])
		if f == nil {
			continue
		}
		var cl string
		if i == 0 && w == baseWorld {
			// nothing was asked before, the context of family (i): the same case, the same signature
			cl = f.class + ":fresh-evaluator"
		} else if i == 0 {
			// nothing was asked before: not a matter of reuse
			cl = f.class + ":names=" + w.name + ":fresh-evaluator"
		} else {
			var before []string
			for _, b := range seq[:i] {
				before = append(before, worlds[b].name)
			}
			cl = f.class + ":names=" + w.name + ":after=" + strings.Join(before, ">")
			f.what = fmt.Sprintf("one Evaluator, the same template under contexts allowing %s and then %s: %s", strings.Join(before, ", then "), w.name, f.what)
		}
		bad = append(bad, reuseStep{f, cl})
	}
	return bad
}

func reuseRefs(t string) []reuseRef {
	refs := make([]reuseRef, len(worlds))
	for i, w := range worlds {
		refs[i] = refOf(w, t)
		refs[i].exprs = nil
	}
	return refs
}

func seqNames(seq []int) []string {
	var n []string
	for _, wi := range seq {
		n = append(n, worlds[wi].name)
	}
	return n
}

// reuseClasses runs every sequence of the given lengths on t and returns the failure classes
// (with the sequence in them) and, for each, the first failing step and sequence.
func reuseClasses(t string, seqs [][]int) (classes []string, first map[string]reuseStep, firstSeq map[string][]int, differs bool) {
	refs := reuseRefs(t)
	for _, r := range refs[1:] {
		if r.want != refs[0].want || r.exact != refs[0].exact {
			differs = true
		}
	}
	for _, seq := range seqs {
		for _, st := range runSequence(t, seq, refs) {
			if !has(classes, st.class) {
				classes = append(classes, st.class)
				if first == nil {
					first, firstSeq = map[string]reuseStep{}, map[string][]int{}
				}
				first[st.class], firstSeq[st.class] = st, seq
			}
		}
	}
	return
}

var callCounts = map[int][2]int64{}

// countCalls gives the calls executed for a set of sequences, and how many of them differ in their
// history (a sequence's first call is the same case whatever follows it).
func countCalls(seqs [][]int) (calls, distinct int64) {
	if n, ok := callCounts[len(seqs)]; ok {
		return n[0], n[1]
	}
	seen := map[string]bool{}
	for _, q := range seqs {
		calls += int64(len(q))
		for i := range q {
			seen[fmt.Sprint(q[:i+1])] = true
		}
	}
	callCounts[len(seqs)] = [2]int64{calls, int64(len(seen))}
	return calls, int64(len(seen))
}

func (r *runner) runReuse() (capped bool) {
	c := r.c
	b := reuseBoundsOf(c.Tier)
	pairs, triples := contextSequences(2), contextSequences(3)
	seqsFor := func(n int) [][]int {
		if n <= b.tripleLen {
			return append(append([][]int{}, pairs...), triples...)
		}
		return pairs
	}
	// the unit is a two-character suffix (shortest strings first); the one-character strings are one more unit
	suffixes := allStrings(2)
	for ui := 0; ui <= len(suffixes); ui++ {
		if !c.Mine(ui) {
			continue
		}
		if c.Expired() {
			return true
		}
		sh := newShrinker(func(s string) []string {
			cl, _, _, _ := reuseClasses(s, seqsFor(len([]rune(s))))
			return cl
		})
		var strs []string
		if ui == len(suffixes) {
			strs = allStrings(1)
		} else {
			for n := 2; n <= b.pairLen; n++ {
				for _, p := range allStrings(n - 2) {
					strs = append(strs, p+suffixes[ui])
				}
			}
		}
		for _, s := range strs {
			seqs := seqsFor(len([]rune(s)))
			calls, distinct := countCalls(seqs)
			classes, first, firstSeq, differs := reuseClasses(s, seqs)
			sh.known[s] = classes
			c.Add("evaluations", calls)
			c.Add("cases:reused-evaluator", calls)
			c.Add("reuse_sequences", int64(len(seqs)))
			if special(s) {
				c.Add("distinct_nontrivial", distinct)
			}
			if differs {
				r.fact("reuse:text-means-different-things-in-different-contexts")
			}
			if strings.Contains(s, "@n") {
				r.fact("reuse:name-allowed-in-one-context-only")
			}
			if strings.Contains(s, "@(") {
				r.fact("reuse:has-expression")
			}
			if len(classes) == 0 {
				c.Outcome("reuse:ok")
			}
			for _, cl := range classes {
				m := sh.minimal(s, cl)
				c.Outcome("reuse:FAIL")
				key := "reuse:" + cl
				if strings.HasSuffix(cl, ":fresh-evaluator") {
					key = "text:" + strings.TrimSuffix(cl, ":fresh-evaluator")
				}
				r.violation(key+":min="+strconv.Quote(m), first[cl].f.what+"\nsmallest failing text of this shape: "+strconv.Quote(m), replay{Kind: "reuse", S: s, Template: s, Seq: seqNames(firstSeq[cl])})
			}
		}
		c.Inc("reuse_units")
	}
	return false
}

func replayReuse(rp replay) (string, bool) {
	var seq []int
	for _, n := range rp.Seq {
		for wi, w := range worlds {
			if w.name == n {
				seq = append(seq, wi)
			}
		}
	}
	if len(seq) != len(rp.Seq) || len(seq) == 0 {
		return "bad replay: unknown context in " + strings.Join(rp.Seq, ","), false
	}
	refs := reuseRefs(rp.S)
	ev := excellent.NewEvaluator()
	var desc strings.Builder
	violated := false
	fmt.Fprintf(&desc, "template text %q on one fresh Evaluator\n", rp.S)
	for i, wi := range seq {
		w := worlds[wi]
		out, failed, pn := evalTemplateWith(ev, w.ctx, rp.S)
		fmt.Fprintf(&desc, "call %d, context allowing %s: %q (error: %v) %s; statement's rule: %q (every `@(` closed: %v)\n", i+1, w.name, out, failed, pn, refs[wi].want, refs[wi].exact)
		if f := judgeText(rp.S, out, pn, refs[wi]); f != nil {
			fmt.Fprintf(&desc, "PROBLEM %s: %s\n", f.class, f.what)
			violated = true
		}
	}
	return desc.String(), violated
}
