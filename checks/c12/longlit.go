package c12

import (
	"encoding/json"
	"fmt"
	"strings"

	"github.com/nyaruka/goflow/envs"
	"github.com/nyaruka/goflow/excellent"
	"github.com/nyaruka/goflow/excellent/types"
	"verif/mc"
)

// Family L (long values written by the library's own literal writer). "Every string value can be
// written as a quoted, escaped string literal that evaluates to exactly that string": the writer
// the library itself uses when it rewrites templates is TextLiteral.String(). For every length around
// every plausible internal limit and every character of the alphabet (alone and mixed), the value is
// written with it, parsed and evaluated, alone and inside a template next to another expression.

var longLengths = []int{63, 64, 65, 99, 100, 101, 127, 128, 129, 255, 256, 257, 639, 640, 641, 1000, 4095, 4096, 4097, 10000, 10001}

type longCase struct {
	Family string `json:"family"`
	Unit   string `json:"unit"`
	Len    int    `json:"len"`
}

func (lc longCase) value() string {
	if lc.Unit == "mixed" {
		var sb strings.Builder
		units := []string{"a", `"`, `\`, "é", "\n", "(", ")", "@", "😀", "."}
		for i := 0; sb.Len() < lc.Len*4 && i < lc.Len; i++ {
			sb.WriteString(units[i%len(units)])
		}
		return sb.String()
	}
	return strings.Repeat(lc.Unit, lc.Len)
}

func longCases() []longCase {
	var out []longCase
	for _, u := range []string{"a", `"`, `\`, "é", "\n", "(", "@", "😀", "mixed"} {
		for _, n := range longLengths {
			out = append(out, longCase{Family: "long-literal", Unit: u, Len: n})
		}
	}
	return out
}

func unitClass(u string) string {
	switch u {
	case "a":
		return "letter"
	case `"`:
		return "quote"
	case `\`:
		return "backslash"
	case "\n":
		return "newline"
	case "mixed":
		return "mixed"
	}
	return "other"
}

func judgeLong(lc longCase) (key, what string) {
	v := lc.value()
	var written string
	if p := mc.Guard(func() { written = (&excellent.TextLiteral{Value: types.NewXText(v)}).String() }); p != "" {
		return "long-literal:writer-panics:" + mc.PanicSite(p), p
	}
	env := envs.NewBuilder().Build()
	ctx := types.NewXObject(map[string]types.XValue{"n": types.NewXText("N")})
	ev := excellent.NewEvaluator()
	lenClass := "<=100"
	if lc.Len > 100 {
		lenClass = ">100"
	}
	// alone
	expr, err := excellent.Parse(written, nil)
	if err != nil {
		return "long-literal:written-literal-does-not-parse:" + unitClass(lc.Unit) + ":len" + lenClass, fmt.Sprintf("a value of %d x %q written by TextLiteral.String() does not parse: %v", lc.Len, lc.Unit, err)
	}
	got := expr.Evaluate(env, excellent.NewScope(ctx, nil), &excellent.Warnings{})
	if t, ok := got.(*types.XText); !ok || t.Native() != v {
		return "long-literal:written-literal-evaluates-differently:" + unitClass(lc.Unit) + ":len" + lenClass, fmt.Sprintf("a value of %d x %q written by TextLiteral.String() evaluates to a different value (%d bytes instead of %d)", lc.Len, lc.Unit, len(types.Render(got)), len(v))
	}
	// printing is a fixed point
	if again := expr.String(); again != written {
		return "long-literal:print-not-fixed-point:" + unitClass(lc.Unit) + ":len" + lenClass, "printing the parsed literal again gives a different text"
	}
	// inside a template next to another expression (only when the known lexer defect cannot interfere:
	// a value ending in a backslash followed by another quote is C12's known finding)
	if !strings.HasSuffix(v, `\`) {
		tpl := "x @(" + written + " & n) y"
		out, _, err := ev.Template(env, ctx, tpl, nil)
		if err != nil || out != "x "+v+"N y" {
			return "long-literal:in-template:" + unitClass(lc.Unit) + ":len" + lenClass, fmt.Sprintf("template with the written literal of %d x %q evaluates wrongly (err=%v, %d bytes)", lc.Len, lc.Unit, err, len(out))
		}
	}
	return "", ""
}

func runLongLiterals(c *mc.Ctx) {
	for i, lc := range longCases() {
		if !c.Mine(i) {
			continue
		}
		c.Inc("evaluations")
		c.Inc("distinct_nontrivial")
		c.Inc("long_literal_cases")
		c.Fact("long-literal:" + unitClass(lc.Unit))
		if key, what := judgeLong(lc); key != "" {
			c.Violation(key, what, lc)
		}
	}
}

func replayLong(raw json.RawMessage) (string, bool, bool) {
	var lc longCase
	if json.Unmarshal(raw, &lc) != nil || lc.Family != "long-literal" {
		return "", false, false
	}
	key, what := judgeLong(lc)
	if key == "" {
		return fmt.Sprintf("long literal %d x %q: held", lc.Len, lc.Unit), false, true
	}
	return "PROBLEM " + key + ": " + what, true, true
}
