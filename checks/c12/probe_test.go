package c12

import (
	"fmt"
	"testing"
)

func TestProbe(t *testing.T) {
	n := 0
	var all []string
	for l := 0; l <= 2; l++ {
		all = append(all, allStrings(l)...)
	}
	for _, s := range all {
		for _, u := range all {
			for i := range forms {
				f := &forms[i]
				if !f.pair {
					continue
				}
				if fl := checkLiteral(f, s, u); fl != nil && fl.class[:6] == "parser" && n < 12 {
					fmt.Println(fl.class, fl.what)
					n++
				}
			}
		}
	}
}
