// Package c06: (not built yet)
package c06
