// Package c06: query-based group membership always matches the contact.
package c06

import (
	"encoding/json"
	"fmt"
	"sort"
	"strings"
	"time"

	"github.com/nyaruka/goflow/contactql"
	"github.com/nyaruka/goflow/envs"
	"github.com/nyaruka/goflow/flows"
	"verif/checks/cf"
	"verif/checks/sm"
	"verif/mc"
)

// expectedMembership recomputes, independently of the engine's own membership code, which query
// groups the contact should be in: active AND the group's query (parsed here) matches.
func expectedMembership(env envs.Environment, sa flows.SessionAssets, contact *flows.Contact) (map[string]bool, error) {
	out := map[string]bool{}
	for _, g := range sa.Groups().All() {
		if g.Query() == "" {
			continue
		}
		q, err := contactql.ParseQuery(env, g.Query(), sa.Fields())
		if err != nil {
			return nil, fmt.Errorf("group %s: %w", g.Name(), err)
		}
		out[string(g.UUID())] = contact.Status() == flows.ContactStatusActive && contactql.EvaluateQuery(env, q, contact)
	}
	return out, nil
}

type groupFacts struct {
	query  map[string]bool // uuid -> is member, for query groups
	static []string        // static group uuids
}

func membership(sa flows.SessionAssets, contact *flows.Contact) groupFacts {
	gf := groupFacts{query: map[string]bool{}}
	for _, g := range sa.Groups().All() {
		if g.Query() != "" {
			gf.query[string(g.UUID())] = false
		}
	}
	for _, g := range contact.Groups().All() {
		if g.Query() != "" {
			gf.query[string(g.UUID())] = true
		} else {
			gf.static = append(gf.static, string(g.UUID()))
		}
	}
	return gf
}

func groupName(uuid string) string {
	for i, q := range cf.QueryGroups {
		if cf.QGroupUUID(i) == uuid {
			return strings.ReplaceAll(q.Name, " ", "-")
		}
	}
	return "static"
}

// judgeState checks the membership clause on one returned contact.
func judgeState(prefix string, env envs.Environment, sa flows.SessionAssets, contact *flows.Contact, wasActive bool) []sm.Problem {
	var ps []sm.Problem
	exp, err := expectedMembership(env, sa, contact)
	if err != nil {
		return []sm.Problem{{Key: "harness:query", What: err.Error()}}
	}
	// the reference semantics (hand-written predicates over the contact's JSON, independent of the
	// library's evaluator) decide; a disagreement of the library's evaluator is reported separately
	cj, _ := json.Marshal(contact)
	view, verr := cf.ViewOf(cj)
	if verr != nil {
		return []sm.Problem{{Key: "harness:view", What: verr.Error()}}
	}
	tz, ownTZ := env.Timezone(), false
	if view.Timezone != "" {
		if l, err := time.LoadLocation(view.Timezone); err == nil {
			tz, ownTZ = l, true // the contact's own timezone overrides the environment's
		}
	}
	for i := range cf.QueryGroups {
		u := cf.QGroupUUID(i)
		ref := contact.Status() == flows.ContactStatusActive && cf.RefMatches(i, view, tz)
		// (the library evaluator is run in the plain session environment: comparable unless the contact
		// has a timezone of its own)
		if lib, ok := exp[u]; ok && lib != ref && !ownTZ {
			ps = append(ps, sm.Problem{Key: prefix + ":query-evaluation-differs-from-reference:" + groupName(u),
				What: fmt.Sprintf("query %q: contactql.EvaluateQuery says %v (with status) but the reference semantics say %v for contact %s", cf.QueryGroups[i].Query, lib, ref, cj)})
		}
		exp[u] = ref
	}
	got := membership(sa, contact)
	var keys []string
	for k := range exp {
		keys = append(keys, k)
	}
	sort.Strings(keys)
	for _, k := range keys {
		if exp[k] != got.query[k] {
			dir := "missing-from-matching-group"
			if got.query[k] {
				dir = "member-of-non-matching-group"
			}
			ps = append(ps, sm.Problem{Key: prefix + ":" + dir + ":" + groupName(k) + ":status=" + string(contact.Status()),
				What: fmt.Sprintf("query group %q: contact should be member=%v but is member=%v (status %s)", groupName(k), exp[k], got.query[k], contact.Status())})
		}
	}
	if wasActive && contact.Status() != flows.ContactStatusActive && len(got.static) > 0 {
		ps = append(ps, sm.Problem{Key: prefix + ":became-" + string(contact.Status()) + "-but-kept-static-groups",
			What: fmt.Sprintf("contact became %s in this step but still belongs to %d static groups", contact.Status(), len(got.static))})
	}
	return ps
}

// judgeEvents checks that the membership changes between before and after are exactly what the
// contact_groups_changed events announce (net effect per group).
func judgeEvents(prefix string, before, after *cf.View, events [][]byte, types []string) []sm.Problem {
	net := map[string]int{}
	refreshed := false
	for i, ev := range events {
		if types[i] == "contact_refreshed" {
			// the refreshed contact replaces the membership baseline
			var e struct {
				Contact json.RawMessage `json:"contact"`
			}
			json.Unmarshal(ev, &e)
			if nv, err := cf.ViewOf(e.Contact); err == nil {
				before = nv
				net = map[string]int{}
				refreshed = true
			}
		}
		if types[i] != "contact_groups_changed" {
			continue
		}
		var e struct {
			Added   []struct{ UUID string } `json:"groups_added"`
			Removed []struct{ UUID string } `json:"groups_removed"`
		}
		json.Unmarshal(ev, &e)
		for _, g := range e.Added {
			net[g.UUID]++
		}
		for _, g := range e.Removed {
			net[g.UUID]--
		}
	}
	_ = refreshed
	in := func(v *cf.View, g string) bool {
		for _, x := range v.Groups {
			if x == g {
				return true
			}
		}
		return false
	}
	all := map[string]bool{}
	for _, g := range before.Groups {
		all[g] = true
	}
	for _, g := range after.Groups {
		all[g] = true
	}
	for g := range net {
		all[g] = true
	}
	var keys []string
	for g := range all {
		keys = append(keys, g)
	}
	sort.Strings(keys)
	var ps []sm.Problem
	for _, g := range keys {
		delta := 0
		if in(after, g) && !in(before, g) {
			delta = 1
		} else if !in(after, g) && in(before, g) {
			delta = -1
		}
		if delta != net[g] {
			ps = append(ps, sm.Problem{Key: fmt.Sprintf("%s:membership-change-not-announced:%s:actual=%+d:announced=%+d", prefix, groupName(g), delta, net[g]),
				What: fmt.Sprintf("group %s: membership changed by %+d but contact_groups_changed events announce %+d", groupName(g), delta, net[g])})
		}
	}
	return ps
}

// ---------------------------------------------------------------------------------------------

func modClass(m cf.J) string {
	t, _ := m["type"].(string)
	if mod, ok := m["modification"].(string); ok {
		return t + ":" + mod
	}
	return t
}

func judgeDirect(c *mc.Ctx, w *cf.World, d *cf.Direct, count bool) []sm.Problem {
	r := w.Run(d)
	if r.Panic != "" || r.Err != nil || r.NoModifier || r.ContactAfter == nil {
		return nil // C03 reports harness problems and panics of this space
	}
	// A modifier that reports "not modified" does not re-evaluate groups; a contact whose *stored*
	// membership was already wrong then stays wrong. The statement's clause is about what a modifier
	// does, so a no-op on a wrongly stored contact is not judged (counted instead).
	// (a modifier that did change the contact is judged whatever it reports)
	before, _ := cf.ViewOf(r.Before)
	after, _ := cf.ViewOf(r.After)
	if !r.Modified && cf.Diff(before, after) == "" {
		if count {
			c.Inc("direct_noop_not_judged")
		}
		return nil
	}
	if count {
		c.Inc("direct_judged")
		if before.Status == "active" && after.Status != "active" {
			c.Fact("became_non_active")
		}
		if strings.Join(before.Groups, ",") != strings.Join(after.Groups, ",") {
			c.Fact("direct_membership_changed")
		}
	}
	prefix := "direct:" + modClass(d.Modifier)
	ps := judgeState(prefix, w.Env, w.SA, r.ContactAfter, before.Status == "active")
	// note: the second application is part of r.ContactAfter (C03 shows it changes nothing); events
	// of the first application are compared with the change between before and after the first
	ps = append(ps, judgeEvents(prefix, before, after, r.Events, r.EventTypes)...)
	return ps
}

type engineCase struct {
	Root cf.EngineRoot `json:"root"`
	Hist []string      `json:"history"`
}

func judgeEngine(c *mc.Ctx, ec *engineCase, count bool) []sm.Problem {
	var ps []sm.Problem
	obs, err := cf.Execute(&ec.Root, ec.Hist)
	if err != nil {
		return []sm.Problem{{Key: "harness:" + mc.Hash(err.Error()), What: err.Error()}}
	}
	for i, o := range obs {
		if o.Panic != "" || o.Err != nil {
			continue
		}
		callClass := "start-" + ec.Root.Trigger
		if i > 0 {
			callClass = strings.SplitN(o.Call, ":", 2)[0]
		}
		before, _ := cf.ViewOf(o.Before)
		after, _ := cf.ViewOf(o.After)
		contact := o.Contact
		if count {
			c.Inc("engine_sprints")
			if strings.Join(before.Groups, ",") != strings.Join(after.Groups, ",") {
				c.Fact("engine_membership_changed")
			}
			if before.Status == "active" && after.Status != "active" {
				c.Fact("became_non_active")
			}
			c.Outcome(fmt.Sprintf("engine %s groups=%d", callClass, len(after.Groups)))
		}
		wasActive := before.Status == "active"
		for _, t := range o.EventTypes {
			if t == "contact_refreshed" {
				wasActive = false // baseline replaced
			}
		}
		prefix := "engine:" + callClass
		ps = append(ps, judgeState(prefix, o.Env, o.Session.Assets(), contact, wasActive)...)
		ps = append(ps, judgeEvents(prefix, before, after, o.Events, o.EventTypes)...)
	}
	return ps
}

func run(c *mc.Ctx) {
	w, err := cf.NewWorld()
	if err != nil {
		c.Violation("harness:world", err.Error(), nil)
		return
	}
	contacts := cf.Contacts(c.Thorough())
	mods := cf.Modifiers()
	for ci := range contacts {
		if !c.Mine(ci) {
			continue
		}
		if c.Expired() {
			c.Cap("time budget reached in the direct family")
			return
		}
		for mi := range mods {
			d := &cf.Direct{Contact: contacts[ci], Modifier: mods[mi], MaxField: 640}
			c.Inc("evaluations")
			c.Inc("states")
			c.Inc("transitions")
			for _, p := range judgeDirect(c, w, d, true) {
				c.Violation(p.Key, p.What+"\ncontact: "+mc.JSON(d.Contact)+"\nmodifier: "+mc.JSON(d.Modifier), map[string]any{"space": "direct", "case": d})
			}
			// modifiers that name groups, read against a second instance of the same assets
			if t, _ := mods[mi]["type"].(string); t == "groups" {
				d2 := &cf.Direct{Contact: contacts[ci], Modifier: mods[mi], MaxField: 640, OtherAssets: true}
				c.Inc("evaluations")
				c.Inc("states")
				c.Inc("transitions")
				for _, p := range judgeDirect(c, w, d2, true) {
					c.Violation("reloaded-assets:"+p.Key, p.What+"\ncontact: "+mc.JSON(d2.Contact)+"\nmodifier (read against a second instance of the assets): "+mc.JSON(d2.Modifier), map[string]any{"space": "direct", "case": d2})
				}
			}
		}
		c.Inc("distinct_nontrivial")
	}
	if c.Thorough() {
		// two-step chains: the judged application starts from a state reached through the library
		quickContacts := cf.Contacts(false)
		idx := 0
		for pi, pre := range cf.PreModifiers() {
			for ci := range quickContacts {
				idx++
				if !c.Mine(idx) {
					continue
				}
				if c.Expired() {
					c.Cap(fmt.Sprintf("time budget reached in the two-step chains (first modifier %d)", pi))
					return
				}
				for mi := range mods {
					d := &cf.Direct{Contact: quickContacts[ci], Modifier: mods[mi], MaxField: 640, Pre: pre}
					c.Inc("evaluations")
					c.Inc("chained_applications")
					c.Inc("states")
					c.Inc("transitions")
					for _, p := range judgeDirect(c, w, d, true) {
						c.Violation("chain:"+p.Key, p.What+"\ncontact: "+mc.JSON(d.Contact)+"\nfirst modifier: "+mc.JSON(pre)+"\nmodifier: "+mc.JSON(d.Modifier), map[string]any{"space": "direct", "case": d})
					}
				}
			}
		}
	}
	roots := cf.EngineRoots()
	for i := range roots {
		if !c.Mine(i) {
			continue
		}
		if c.Expired() {
			c.Cap("time budget reached in the engine family")
			return
		}
		for _, h := range cf.Histories {
			if len(h) > 0 && !roots[i].Wait && h[0] != "again" {
				continue
			}
			ec := &engineCase{Root: roots[i], Hist: h}
			c.Inc("evaluations")
			c.Inc("states")
			c.Add("transitions", int64(1+len(h)))
			for _, p := range judgeEngine(c, ec, true) {
				c.Violation(p.Key, p.What+"\nroot: "+roots[i].String()+" contact: "+mc.JSON(roots[i].Contact)+fmt.Sprintf(" history: %v", h), map[string]any{"space": "engine", "case": ec})
			}
			if c.WantSample() && i%1201 == 7 {
				c.Sample(map[string]any{"root": roots[i].String(), "history": h, "query_groups": len(cf.QueryGroups)})
			}
		}
		c.Inc("distinct_nontrivial")
	}
}

func replayFn(c *mc.Ctx, raw json.RawMessage) (string, bool) {
	var probe struct {
		Space string `json:"space"`
	}
	json.Unmarshal(raw, &probe)
	var ps []sm.Problem
	out := ""
	if probe.Space == "direct" {
		var rp struct {
			Case cf.Direct `json:"case"`
		}
		json.Unmarshal(raw, &rp)
		w, err := cf.NewWorld()
		if err != nil {
			return err.Error(), false
		}
		ps = judgeDirect(c, w, &rp.Case, false)
		out = "direct: contact=" + mc.JSON(rp.Case.Contact) + " modifier=" + mc.JSON(rp.Case.Modifier)
	} else {
		var rp struct {
			Case engineCase `json:"case"`
		}
		json.Unmarshal(raw, &rp)
		ps = judgeEngine(c, &rp.Case, false)
		out = "engine: " + rp.Case.Root.String() + " contact=" + mc.JSON(rp.Case.Root.Contact) + fmt.Sprintf(" history=%v", rp.Case.Hist)
	}
	for _, p := range ps {
		out += "\nPROBLEM " + p.Key + ": " + p.What
	}
	return out, len(ps) > 0
}

func init() {
	mc.Register(&mc.Check{
		ID:    "C06",
		Level: "model_checking",
		Rule: "invariant on every state of two exhaustively enumerated spaces on the real code, with 25 query-based groups (one per queryable property: name, language, tel/urn/scheme, created_on, last_seen_on, tickets, text/number/datetime/location fields, AND, OR; != over properties with several values, the tokenized name match, a nested combination): (A) starting contacts (incl. wrong stored membership, non-active) x the whole modifier alphabet applied through modifiers.Apply; " +
			"(B) engine: all ordered pairs of 16 contact-changing actions with/without a wait between x {manual,msg} triggers x 24 starting contacts x histories {start, msg resume, msg resume with refreshed contact}. Oracle: member(g) <=> active AND the query matches, where matching is decided by hand-written reference predicates over the contact JSON (the library evaluator, run on the harness's own parse of the query, must agree with them); active->non-active leaves no static groups; net membership change per group == what contact_groups_changed events announce.",
		Assumptions: []string{"a modifier that reports not-modified is not judged on a contact whose stored membership was already wrong (no re-evaluation is promised for a no-op)", "the query is evaluated in the session's environment"},
		Run:         run,
		Replay:      replayFn,
		Budget:      map[string]time.Duration{"quick": 4 * time.Minute, "thorough": 20 * time.Minute},
		Guards: func(r *mc.Result, tier string) []string {
			var f []string
			for _, fact := range []string{"became_non_active", "direct_membership_changed", "engine_membership_changed"} {
				if r.Facts[fact] == 0 {
					f = append(f, "never observed: "+fact)
				}
			}
			return f
		},
	})
}
