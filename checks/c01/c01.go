// Package c01: the session state machine is well-formed after every sprint.
package c01

import (
	"encoding/json"
	"fmt"
	"time"

	"github.com/nyaruka/goflow/flows"
	"verif/checks/sm"
	"verif/mc"
	"verif/world"
)

var quickKinds = []string{"A", "Em", "Es", "Est", "Eo", "Eot", "W", "S", "WT"}
var thoroughKinds = []string{"A", "AR", "Em", "Es", "Est", "Eo", "Eot", "W", "S", "WT", "R"}

var voiceKinds = []string{"A", "D", "W", "Es", "Eo"}
var eventKinds = []string{"AW", "W", "Eo"}
var pushFailKinds = []string{"A", "W", "Es", "Eo", "EsEm", "EoEm"}

var triggers = []string{"manual", "msg", "flow_action"}

// LooseLimit is a MaxStepsPerSprint no acyclic walk through <= 2+2 nodes reaches; TightLimit is
// reachable inside sub-flow recursion with tiny graphs. A root is re-explored under TightLimit only
// if some sprint under LooseLimit made more than TightLimit steps (otherwise the two runs are
// identical, a sound reduction).
const LooseLimit, TightLimit = 8, 3

type replay struct {
	Root world.Root   `json:"root"`
	Hist []world.Step `json:"history"`
}

// Roots enumerates the roots of a tier (also used by other engine-level checks).
func Roots(tier string) []world.Root {
	var sets []world.FlowSet
	if tier == "quick" {
		sets = world.EnumFlowSets(quickKinds, 2, 1)
	} else {
		sets = world.EnumFlowSets(thoroughKinds, 2, 2)
	}
	var roots []world.Root
	for i := range sets {
		for _, tr := range triggers {
			roots = append(roots, world.Root{Flows: &sets[i], Trigger: tr, Opt: world.Options{MaxSteps: LooseLimit}})
		}
	}
	// a low resume limit for flows that can nest runs behind waits: the resume that reaches the limit
	// fails the session while several runs are alive (three levels deep after two resumes)
	for i := range sets {
		hasWait, hasEnter := false, false
		for _, n := range sets[i].Flows[0].Nodes {
			if n.Kind == "W" || n.Kind == "WT" {
				hasWait = true
			}
			if n.Kind == "Es" || n.Kind == "Eo" {
				hasEnter = true
			}
		}
		if hasWait && hasEnter {
			roots = append(roots, world.Root{Flows: &sets[i], Trigger: "manual", Opt: world.Options{MaxSteps: LooseLimit, MaxResumes: 3}})
		}
	}
	// the push-then-fail family: a node that enters a flow and then fails its run in the same node
	pushFail := world.EnumFlowSets(pushFailKinds, 2, 1)
	for i := range pushFail {
		uses := false
		for _, fl := range pushFail[i].Flows {
			for _, n := range fl.Nodes {
				uses = uses || n.Kind == "EsEm" || n.Kind == "EoEm"
			}
		}
		if !uses {
			continue // covered by the main family
		}
		for _, tr := range []string{"manual", "msg"} {
			roots = append(roots, world.Root{Flows: &pushFail[i], Trigger: tr, Opt: world.Options{MaxSteps: LooseLimit}})
		}
	}
	// the event family: nodes that log several events per step, among them consecutive identical ones
	evf := world.EnumFlowSets(eventKinds, 2, 1)
	for i := range evf {
		uses := false
		for _, fl := range evf[i].Flows {
			for _, n := range fl.Nodes {
				uses = uses || n.Kind == "AW"
			}
		}
		if !uses {
			continue
		}
		for _, tr := range []string{"manual", "msg"} {
			roots = append(roots, world.Root{Flows: &evf[i], Trigger: tr, Opt: world.Options{MaxSteps: LooseLimit}})
		}
	}
	// the voice family: dial waits and dial resumes
	voice := world.EnumFlowSets(voiceKinds, 2, 1)
	for i := range voice {
		for j := range voice[i].Flows {
			voice[i].Flows[j].Type = "voice"
		}
		roots = append(roots, world.Root{Flows: &voice[i], Trigger: "voice", Opt: world.Options{MaxSteps: LooseLimit}})
	}
	return roots
}

func run(c *mc.Ctx) {
	roots := Roots(c.Tier)
	depth, bound := 3, 1
	if c.Thorough() {
		depth, bound = 4, 2
	}
	c.Add("roots_total", 0)
	for i := range roots {
		if !c.Mine(i) {
			continue
		}
		if c.Expired() {
			c.Cap(fmt.Sprintf("time budget reached; roots are enumerated in a fixed order and every root before the cap was explored completely to depth %d", depth))
			break
		}
		root := &roots[i]
		events := world.Events
		if root.Trigger == "voice" {
			events = append(append([]string{}, world.Events...), "dial:answered", "dial:busy")
		}
		cfg := sm.Cfg{Ctx: c, Depth: depth, Events: events, Regimes: []bool{false, true}, ChoiceBound: bound, MaxTransitions: 120000}
		cfg.Visit = func(t *sm.Trans) bool { return visit(c, t) }
		st := sm.Search(root, cfg)
		if st.Truncated {
			// a cycle through a random router: ~8^depth path shapes under two deviations per sprint
			c.Inc("roots_truncated_at_the_transition_bound")
			c.Cap(fmt.Sprintf("some roots have more than %d transitions per regime below them (random routers in cycles); those were explored breadth-first, completely to depth %d at least, and every transition executed was checked", cfg.MaxTransitions, st.CompleteDepth))
		}
		if st.MaxSprintSteps > TightLimit {
			tight := *root
			tight.Opt.MaxSteps = TightLimit
			st2 := sm.Search(&tight, cfg)
			c.Inc("roots_reexplored_under_tight_step_limit")
			st.States += st2.States
			st.Transitions += st2.Transitions
			st.Execs += st2.Execs
			st.GoErrors += st2.GoErrors
			st.Waiting += st2.Waiting
			st.Completed += st2.Completed
			st.Failed += st2.Failed
		}
		c.Inc("roots")
		c.Add("states", int64(st.States))
		c.Add("transitions", int64(st.Transitions))
		c.Add("evaluations", int64(st.Transitions))
		c.Add("engine_calls", int64(st.Execs))
		c.Add("go_errors", int64(st.GoErrors))
		c.Add("states_waiting", int64(st.Waiting))
		c.Add("states_completed", int64(st.Completed))
		c.Add("states_failed", int64(st.Failed))
		if st.States > 2 {
			c.Inc("distinct_nontrivial")
		}
		c.Max("max_depth", int64(st.MaxDepth))
		c.Max("max_states_per_root", int64(st.States))
	}
}

func visit(c *mc.Ctx, t *sm.Trans) bool {
	rp := replay{Root: *t.Root, Hist: t.Hist}
	if t.HarnessErr != nil {
		c.Violation("harness:"+mc.Hash(t.HarnessErr.Error()), "harness error: "+t.HarnessErr.Error(), rp)
		return false
	}
	if t.Panic != "" {
		// panics are C05's subject; C01 counts them
		c.Inc("panics")
		return false
	}
	if t.X.Err != nil {
		return false
	}
	s := t.X.Session
	// vacuity facts
	if len(s.Runs()) >= 3 {
		c.Fact("three_runs")
	}
	for _, r := range s.Runs() {
		if r.Status() == flows.RunStatusExpired && r.ParentInSession() != nil {
			c.Fact("child_expired")
		}
		if r.Status() == flows.RunStatusFailed {
			c.Fact("run_failed")
		}
	}
	if t.X.Sprint != nil {
		for _, e := range t.X.Sprint.Events() {
			c.Outcome("event:" + e.Type())
			if e.Type() == "flow_entered" {
				c.Fact("flow_entered")
			}
			if e.Type() == "dial_wait" {
				c.Fact("dial_wait")
			}
			if e.Type() == "dial_ended" {
				c.Fact("dial_ended")
			}
		}
	}
	c.Outcome(fmt.Sprintf("status:%s runs:%d", s.Status(), min(len(s.Runs()), 5)))
	if t.Root.Opt.MaxResumes == 3 && s.Status() == flows.SessionStatusFailed && len(s.Runs()) >= 3 && len(t.Hist) == 4 {
		c.Fact("resume_limit_with_three_nested_runs")
	}
	if c.WantSample() && len(t.Hist) >= 3 {
		c.Sample(map[string]any{"flows": t.Root.Flows.String(), "trigger": t.Root.Trigger, "max_steps": t.Root.Opt.MaxSteps, "history": t.Hist,
			"status": s.Status(), "runs": len(s.Runs()), "state": trim(world.Canon(t.AfterJSON), 600)})
	}
	for _, p := range sm.CheckInvariant(t) {
		c.Violation(p.Key, fmt.Sprintf("%s\nflows: %s\ntrigger: %s max_steps=%d history: %s", p.What, t.Root.Flows.String(), t.Root.Trigger, t.Root.Opt.MaxSteps, mc.JSON(t.Hist)), rp)
	}
	return true
}

func trim(s string, n int) string {
	if len(s) > n {
		return s[:n] + "…"
	}
	return s
}

func replayFn(c *mc.Ctx, raw json.RawMessage) (string, bool) {
	var rp replay
	if err := json.Unmarshal(raw, &rp); err != nil {
		return "bad replay: " + err.Error(), false
	}
	t := sm.Replay(&rp.Root, rp.Hist)
	if t.HarnessErr != nil || t.Panic != "" || t.X.Err != nil {
		return fmt.Sprintf("harness=%v panic=%s err=%v", t.HarnessErr, t.Panic, t.X.Err), t.HarnessErr != nil
	}
	ps := sm.CheckInvariant(t)
	out := fmt.Sprintf("flows: %s\ntrigger: %s history: %s\nsession: %s\n", rp.Root.Flows.String(), rp.Root.Trigger, mc.JSON(rp.Hist), t.AfterJSON)
	for _, p := range ps {
		out += fmt.Sprintf("PROBLEM %s: %s\n", p.Key, p.What)
	}
	return out, len(ps) > 0
}

func init() {
	mc.Register(&mc.Check{
		ID:    "C01",
		Level: "model_checking",
		Rule: "explicit-state BFS on the real engine: roots = every canonical flow set (first flow <= 2 nodes, second flow enumerated only when entered) over the structural node alphabet x {manual,msg,flow_action} triggers (plus a voice family with dial waits and dial resumes) x MaxStepsPerSprint in {8, and 3 when a sprint needs more than 3 steps}; " +
			"transitions = resume menu {msg a, msg zz, wait_timeout, run_expiration} x environment answers (random draws, deviation-bounded), in both restart regimes (live object kept / marshal+ReadSession before every resume); states deduplicated on canonical session JSON; " +
			"the five well-formedness clauses are evaluated after every transition. distinct_nontrivial counts roots with more than 2 distinct reachable states.",
		Assumptions: []string{
			"small-scope: flows of at most 2+2 nodes, histories up to the stated depth",
			"canonical key (UUIDs renamed by first occurrence, timestamps by rank) merges only states with equal futures",
			"clock, UUID and random sources are owned by the harness",
		},
		Run:         run,
		Replay:      replayFn,
		Single:      sm.Single,
		SingleTicks: true,
		Classify:    sm.SkipHangs,
		HangLimit:   15 * time.Second,
		SingleLimit: 30 * time.Second,
		MaxBadCases: 2,
		MemLimitKB:  8 << 20,
		Budget:      map[string]time.Duration{"quick": 8 * time.Minute, "thorough": 30 * time.Minute},
		Guards: func(r *mc.Result, tier string) []string {
			var f []string
			for _, fact := range []string{"three_runs", "child_expired", "run_failed", "flow_entered", "dial_wait", "dial_ended", "resume_limit_with_three_nested_runs"} {
				if r.Facts[fact] == 0 {
					f = append(f, "never observed: "+fact)
				}
			}
			if r.Counters["states_waiting"] == 0 || r.Counters["states_failed"] == 0 || r.Counters["states_completed"] == 0 {
				f = append(f, "not all session statuses reached")
			}
			return f
		},
	})
}
