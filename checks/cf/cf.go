// Package cf is the closed world shared by the contact-family checks (C03, C06): assets with a
// query-based group over every queryable property, a product of starting contacts, the modifier
// alphabet, contact-changing action alphabet, and the reference *event applier*.
package cf

import (
	"encoding/json"
	"fmt"
	"sort"
	"strings"

	"verif/world"
)

type J = world.J

// QueryGroups: one group per queryable property plus boolean combinations.
var QueryGroups = []struct{ Name, Query string }{
	{"Q name", `name = "Ann"`},
	{"Q noname", `name = ""`},
	{"Q lang", `language = eng`},
	{"Q tel", `tel = +12065551212`},
	{"Q hastwitter", `twitter != ""`},
	{"Q notel", `tel = ""`},
	{"Q urn", `urn ~ 5551`},
	{"Q created", `created_on > 2019-06-01`},
	{"Q seen", `last_seen_on != ""`},
	{"Q ticket", `tickets > 0`},
	{"Q gender", `gender = F`},
	{"Q age", `age > 18`},
	{"Q nojoined", `joined = ""`},
	{"Q state", `state = "Kigali City"`},
	{"Q and", `gender = F AND age > 18`},
	{"Q or", `name = "Bob" OR language = fra`},
	// properties with several values under != (true only if every value differs), a second scheme,
	// negations on fields, the tokenized name match and a nested combination
	{"Q nottel", `tel != +12065551212`},
	{"Q noturn", `urn != "+12065551212"`},
	{"Q twann", `twitter = ann`},
	{"Q notgender", `gender != F`},
	{"Q notage", `age != 30`},
	{"Q namelike", `name ~ ann`},
	{"Q nested", `(name = "Bob" OR language = fra) AND tel != ""`},
	// a calendar-day comparison: its answer depends on the timezone in force
	{"Q createdday", `created_on = 2020-01-01`},
	// strictly after a day: true from the first instant of the next day on
	{"Q createdafter", `created_on > 2020-01-01`},
}

func QGroupUUID(i int) string { return world.UUID(fmt.Sprintf("qgroup-%d", i)) }

// Assets returns the asset document with static groups A, B and all query groups.
func Assets(flowDefs []any) J {
	a := world.BaseAssets()
	groups := a["groups"].([]any)
	for i, q := range QueryGroups {
		groups = append(groups, J{"uuid": QGroupUUID(i), "name": q.Name, "query": q.Query})
	}
	a["groups"] = groups
	if flowDefs == nil {
		flowDefs = []any{}
	}
	a["flows"] = flowDefs
	return a
}

// URN alphabet
const (
	URNTel      = "tel:+12065551212"
	URNTelDisp  = "tel:+12065551212#Ann" // hm: tel has no display, kept to see normalisation
	URNTwitter  = "twitter:ann"
	URNTwitter2 = "twitterid:123#ann"
	URNTel2     = "tel:+12065553333"
	URNBad      = "tel:not a number"
	URNUpper    = "twitter:ANN" // needs normalising, same identity as URNTwitter
	// affinity to a channel that is no longer among the assets (resolves to no channel)
	URNStaleChannel = "tel:+12065551212?channel=0a6bd5b3-0a7c-4d0c-9c0c-7a6c0c0c0c0c"
)

// URNTwitterAff already has an affinity to the twitter channel: setting that channel only reorders.
var URNTwitterAff = "twitterid:123?channel=" + world.ChanTwitter + "#ann"

// URNExtraParams has the channel parameter preceded by another parameter (not in the order the library writes them).
var URNExtraParams = "tel:+12065551212?id=123&channel=" + world.ChanTel

// Contacts enumerates the starting contacts: a product over the dimensions that interact with the
// modifiers and query groups.
func Contacts(full bool) []J {
	names := []string{"", "Ann", "Annabelle"}
	langs := []string{"", "eng", "fra"}
	statuses := []string{"active", "blocked", "stopped", "archived"}
	urnLists := [][]any{{}, {URNTel}, {URNTel, URNTwitter}, {URNTwitter2, URNTel2}, {URNTel + "?channel=" + world.ChanTel, URNTwitter2}, {URNStaleChannel, URNTwitter}, {URNExtraParams}, {URNTel + "?channel=" + world.ChanTel, URNTwitterAff}}
	groupSets := [][]any{{}, {J{"uuid": world.GroupA, "name": "Group A"}}, {J{"uuid": world.GroupA, "name": "Group A"}, J{"uuid": world.GroupB, "name": "Group B"}}}
	wrongQ := []int{-1, 2, 9} // stored membership of a query group that may be wrong (-1 = none)
	fieldSets := []J{{}, {"gender": J{"text": "F"}}, {"gender": J{"text": "F"}, "age": J{"text": "30", "number": 30}, "state": J{"text": "Kigali", "state": "Rwanda > Kigali City"}}}
	tickets := []bool{false, true}
	if !full {
		names = []string{"", "Ann"}
		langs = []string{"", "eng"}
		urnLists = [][]any{{}, {URNTel, URNTwitter}, {URNTel + "?channel=" + world.ChanTel, URNTwitter2}, {URNStaleChannel, URNTwitter}, {URNExtraParams}, {URNTel + "?channel=" + world.ChanTel, URNTwitterAff}}
		wrongQ = []int{-1, 9}
	}
	var out []J
	for _, n := range names {
		for _, l := range langs {
			for _, s := range statuses {
				for _, u := range urnLists {
					for _, g := range groupSets {
						for _, wq := range wrongQ {
							for _, f := range fieldSets {
								for _, t := range tickets {
									c := J{"uuid": world.UUID("contact"), "id": 1234, "status": s, "created_on": "2020-01-01T12:00:00.000000000Z"}
									if n != "" {
										c["name"] = n
									}
									if l != "" {
										c["language"] = l
									}
									if len(u) > 0 {
										c["urns"] = u
									}
									gs := append([]any{}, g...)
									if s != "active" {
										gs = nil // a non-active contact stored with static groups is not a reachable stored state
									}
									if wq >= 0 {
										gs = append(gs, J{"uuid": QGroupUUID(wq), "name": QueryGroups[wq].Name})
									}
									if len(gs) > 0 {
										c["groups"] = gs
									}
									if len(f) > 0 {
										c["fields"] = f
									}
									if t {
										c["ticket"] = J{"uuid": world.UUID("ticket-0"), "topic": J{"uuid": world.TopicA, "name": "General"}}
									}
									out = append(out, c)
								}
							}
						}
					}
				}
			}
		}
	}
	return out
}

// Modifiers enumerates the modifier alphabet as JSON for modifiers.ReadModifier.
func Modifiers() []J {
	var out []J
	for _, n := range []string{"", "Ann", "Bob", "Bobb", "Bobby", "Éééééééé", strings.Repeat("x", 700)} {
		out = append(out, J{"type": "name", "name": n})
	}
	for _, l := range []string{"", "eng", "fra"} {
		out = append(out, J{"type": "language", "language": l})
	}
	for _, s := range []string{"active", "blocked", "stopped", "archived"} {
		out = append(out, J{"type": "status", "status": s})
	}
	for _, tz := range []string{"", "America/New_York", "Africa/Kigali"} {
		out = append(out, J{"type": "timezone", "timezone": tz})
	}
	fieldVals := map[string][]string{
		"gender": {"", "F", "M", "Female", strings.Repeat("y", 700), "  ", " F "},
		"age":    {"", "30", "17", "thirty", "30.0", " 30 "},
		"joined": {"", "2021-02-03", "2021-02-03T10:00:00Z", "yesterday"},
		"state":  {"", "Kigali", "Kigali City", "Nowhere"},
	}
	for _, k := range []string{"gender", "age", "joined", "state"} {
		for _, v := range fieldVals[k] {
			out = append(out, J{"type": "field", "field": J{"key": k, "name": k}, "value": v})
		}
	}
	gA := J{"uuid": world.GroupA, "name": "Group A"}
	gB := J{"uuid": world.GroupB, "name": "Group B"}
	gQ := J{"uuid": QGroupUUID(0), "name": QueryGroups[0].Name}
	for _, mod := range []string{"add", "remove"} {
		for _, gl := range [][]any{{gA}, {gB}, {gA, gB}, {gB, gA}, {gA, gA}, {gQ}, {gA, gQ}} {
			out = append(out, J{"type": "groups", "groups": gl, "modification": mod})
		}
	}
	// same identities as a contact may hold with affinity/display: setting them bare changes the contact
	out = append(out, J{"type": "urns", "urns": []any{URNTel, "twitterid:123"}, "modification": "set"})
	out = append(out, J{"type": "urns", "urns": []any{URNTel + "?channel=" + world.ChanTel, URNTwitter2}, "modification": "set"})
	urnAlpha := []string{URNTel, URNTel2, URNTwitter, URNUpper, URNBad}
	for _, mod := range []string{"append", "remove", "set"} {
		out = append(out, J{"type": "urns", "urns": []any{}, "modification": mod})
		for _, a := range urnAlpha {
			out = append(out, J{"type": "urns", "urns": []any{a}, "modification": mod})
			for _, b := range urnAlpha {
				out = append(out, J{"type": "urns", "urns": []any{a, b}, "modification": mod})
			}
		}
	}
	for _, ch := range []string{world.ChanTel, world.ChanTwitter, world.ChanNoSend} {
		out = append(out, J{"type": "channel", "channel": J{"uuid": ch, "name": "x"}})
	}
	out = append(out, J{"type": "channel", "channel": nil}) // clears the preferred channel
	out = append(out, J{"type": "ticket", "topic": J{"uuid": world.TopicB, "name": "Support"}, "assignee": J{"email": "bob@nyaruka.com", "name": "Bob"}, "note": "n"})
	out = append(out, J{"type": "ticket", "topic": J{"uuid": world.TopicA, "name": "General"}, "note": ""})
	return out
}

// PreModifiers are the first modifiers of two-step chains (thorough tier): one or two per class.
func PreModifiers() []J {
	gA := J{"uuid": world.GroupA, "name": "Group A"}
	gB := J{"uuid": world.GroupB, "name": "Group B"}
	return []J{
		{"type": "name", "name": "Bob"},
		{"type": "name", "name": ""},
		{"type": "language", "language": "fra"},
		{"type": "status", "status": "blocked"},
		{"type": "status", "status": "active"},
		{"type": "timezone", "timezone": "Africa/Kigali"},
		{"type": "field", "field": J{"key": "gender", "name": "gender"}, "value": ""},
		{"type": "field", "field": J{"key": "gender", "name": "gender"}, "value": "M"},
		{"type": "field", "field": J{"key": "age", "name": "age"}, "value": "17"},
		{"type": "field", "field": J{"key": "joined", "name": "joined"}, "value": "2021-02-03T10:00:00Z"},
		{"type": "field", "field": J{"key": "state", "name": "state"}, "value": "Kigali"},
		{"type": "groups", "groups": []any{gA, gB}, "modification": "add"},
		{"type": "groups", "groups": []any{gA}, "modification": "remove"},
		{"type": "urns", "urns": []any{URNTel2}, "modification": "append"},
		{"type": "urns", "urns": []any{URNTel}, "modification": "remove"},
		{"type": "urns", "urns": []any{URNTel, URNTwitter2}, "modification": "set"},
		{"type": "urns", "urns": []any{}, "modification": "set"},
		{"type": "channel", "channel": J{"uuid": world.ChanTel, "name": "x"}},
		{"type": "channel", "channel": nil},
		{"type": "ticket", "topic": J{"uuid": world.TopicB, "name": "Support"}, "assignee": J{"email": "bob@nyaruka.com", "name": "Bob"}, "note": "n"},
	}
}

// ---------------------------------------------------------------------------------------------
// The reference model: a contact view and the event applier
// ---------------------------------------------------------------------------------------------

// View is the part of a contact the property speaks about, in a comparable form.
type View struct {
	Name     string            `json:"name"`
	Language string            `json:"language"`
	Status   string            `json:"status"`
	Timezone string            `json:"timezone"`
	URNs     []string          `json:"urns"`
	Fields   map[string]string `json:"fields"` // key -> canonical JSON of the value
	Groups   []string          `json:"groups"` // sorted UUIDs
	Ticket   string            `json:"ticket"` // canonical JSON
	LastSeen string            `json:"last_seen_on"`
}

func canonJSON(v any) string {
	b, _ := json.Marshal(v) // maps marshal with sorted keys
	return string(b)
}

// ViewOf extracts the view from a contact's JSON.
func ViewOf(contactJSON []byte) (*View, error) {
	var m map[string]any
	if err := json.Unmarshal(contactJSON, &m); err != nil {
		return nil, err
	}
	v := &View{Fields: map[string]string{}}
	v.Name, _ = m["name"].(string)
	v.Language, _ = m["language"].(string)
	v.Status, _ = m["status"].(string)
	if v.Status == "" {
		v.Status = "active"
	}
	v.Timezone, _ = m["timezone"].(string)
	if us, ok := m["urns"].([]any); ok {
		for _, u := range us {
			v.URNs = append(v.URNs, u.(string))
		}
	}
	if fs, ok := m["fields"].(map[string]any); ok {
		for k, fv := range fs {
			if fv != nil {
				v.Fields[k] = canonJSON(fv)
			}
		}
	}
	if gs, ok := m["groups"].([]any); ok {
		for _, g := range gs {
			v.Groups = append(v.Groups, g.(map[string]any)["uuid"].(string))
		}
	}
	sort.Strings(v.Groups)
	if t, ok := m["ticket"]; ok && t != nil {
		v.Ticket = canonJSON(t)
	}
	v.LastSeen, _ = m["last_seen_on"].(string)
	return v, nil
}

func (v *View) String() string { return canonJSON(v) }

func (v *View) Clone() *View {
	c := *v
	c.URNs = append([]string{}, v.URNs...)
	c.Groups = append([]string{}, v.Groups...)
	c.Fields = map[string]string{}
	for k, x := range v.Fields {
		c.Fields[k] = x
	}
	return &c
}

// ApplyEvent replays one event (as JSON) over the view. inputTime is the time of the received
// message (resume/trigger time) for msg_received. It reports whether the event is a contact event.
func (v *View) ApplyEvent(evJSON []byte, inputTime string) (bool, error) {
	var e map[string]any
	if err := json.Unmarshal(evJSON, &e); err != nil {
		return false, err
	}
	switch e["type"] {
	case "contact_name_changed":
		v.Name, _ = e["name"].(string)
	case "contact_language_changed":
		v.Language, _ = e["language"].(string)
	case "contact_status_changed":
		v.Status, _ = e["status"].(string)
	case "contact_timezone_changed":
		v.Timezone, _ = e["timezone"].(string)
	case "contact_urns_changed":
		v.URNs = nil
		if us, ok := e["urns"].([]any); ok {
			for _, u := range us {
				v.URNs = append(v.URNs, u.(string))
			}
		}
	case "contact_field_changed":
		key := e["field"].(map[string]any)["key"].(string)
		if e["value"] == nil {
			delete(v.Fields, key)
		} else {
			v.Fields[key] = canonJSON(e["value"])
		}
	case "contact_groups_changed":
		set := map[string]bool{}
		for _, g := range v.Groups {
			set[g] = true
		}
		if gs, ok := e["groups_added"].([]any); ok {
			for _, g := range gs {
				set[g.(map[string]any)["uuid"].(string)] = true
			}
		}
		if gs, ok := e["groups_removed"].([]any); ok {
			for _, g := range gs {
				delete(set, g.(map[string]any)["uuid"].(string))
			}
		}
		v.Groups = nil
		for g := range set {
			v.Groups = append(v.Groups, g)
		}
		sort.Strings(v.Groups)
	case "ticket_opened":
		v.Ticket = canonJSON(e["ticket"])
	case "contact_refreshed":
		raw, _ := json.Marshal(e["contact"])
		nv, err := ViewOf(raw)
		if err != nil {
			return true, err
		}
		*v = *nv
	case "msg_received":
		if inputTime != "" {
			v.LastSeen = inputTime
		}
	default:
		return false, nil
	}
	return true, nil
}

// IsChangeEvent reports whether an event type announces a contact change.
func IsChangeEvent(t string) bool {
	switch t {
	case "contact_name_changed", "contact_language_changed", "contact_status_changed", "contact_timezone_changed",
		"contact_urns_changed", "contact_field_changed", "contact_groups_changed", "ticket_opened", "contact_refreshed":
		return true
	}
	return false
}

// Diff names the first differing member of two views.
func Diff(a, b *View) string {
	switch {
	case a.Name != b.Name:
		return "name"
	case a.Language != b.Language:
		return "language"
	case a.Status != b.Status:
		return "status"
	case a.Timezone != b.Timezone:
		return "timezone"
	case strings.Join(a.URNs, ",") != strings.Join(b.URNs, ","):
		return "urns"
	case canonJSON(a.Fields) != canonJSON(b.Fields):
		return "fields"
	case strings.Join(a.Groups, ",") != strings.Join(b.Groups, ","):
		return "groups"
	case a.Ticket != b.Ticket:
		return "ticket"
	case a.LastSeen != b.LastSeen:
		return "last_seen_on"
	}
	return ""
}
