package cf

import (
	"encoding/json"
	"fmt"

	"github.com/nyaruka/gocommon/dates"
	"github.com/nyaruka/goflow/assets"
	"github.com/nyaruka/goflow/envs"
	"github.com/nyaruka/goflow/flows"
	"github.com/nyaruka/goflow/flows/modifiers"
	"verif/mc"
	"verif/world"
)

// Direct is one direct application of a modifier to a contact (Space A).
type Direct struct {
	Contact  J   `json:"contact"`
	Modifier J   `json:"modifier"`
	MaxField int `json:"max_field"`
	// Pre, if set, is a modifier applied to the contact object first: the judged application then
	// starts from a state that was reached through the library rather than read from JSON
	Pre J `json:"pre,omitempty"`
	// OtherAssets: the modifier is read against a second SessionAssets instance built from the same
	// document (assets reloaded between reading the contact and reading the modifier): its groups,
	// channels etc are other objects with the same identities
	OtherAssets bool `json:"other_assets,omitempty"`
}

// DirectResult is what was observed.
type DirectResult struct {
	Panic          string
	Err            error
	NoModifier     bool // modifier could not be read (missing asset)
	Before, After  []byte
	After2         []byte
	Events         [][]byte
	Events2        [][]byte
	EventTypes     []string
	EventTypes2    []string
	Modified       bool
	Modified2      bool
	ContactAfter   *flows.Contact
	Env            envs.Environment
	SA             flows.SessionAssets
	ContactBefore1 *flows.Contact
}

// World caches what is shared between applications.
type World struct {
	SA2  flows.SessionAssets // a second instance from the same document
	SA   flows.SessionAssets
	Env  envs.Environment
	engs map[int]flows.Engine
}

func NewWorld() (*World, error) {
	sa, _, err := world.BuildAssets(Assets(nil))
	if err != nil {
		return nil, err
	}
	envJSON, _ := json.Marshal(world.DefaultEnv())
	env, err := envs.ReadEnvironment(envJSON)
	if err != nil {
		return nil, err
	}
	sa2, _, err := world.BuildAssets(Assets(nil))
	if err != nil {
		return nil, err
	}
	return &World{SA: sa, SA2: sa2, Env: env, engs: map[int]flows.Engine{}}, nil
}

func (w *World) Engine(maxField int) flows.Engine {
	if e := w.engs[maxField]; e != nil {
		return e
	}
	e := world.NewEngine(world.Options{MaxField: maxField})
	w.engs[maxField] = e
	return e
}

// Run applies the modifier twice to a fresh copy of the contact.
func (w *World) Run(d *Direct) *DirectResult {
	r := &DirectResult{Env: w.Env, SA: w.SA}
	world.Reset()
	// a frozen clock: a date-only value for a datetime field is completed with the current time of
	// day, so "the same modifier twice" only denotes the same change at the same instant
	dates.SetNowFunc(dates.NewFixedNow(world.ClockStart))
	r.Panic = mc.Guard(func() {
		cj, _ := json.Marshal(d.Contact)
		c, err := flows.ReadContact(w.SA, cj, assets.IgnoreMissing)
		if err != nil {
			r.Err = fmt.Errorf("read contact: %w", err)
			return
		}
		mj, _ := json.Marshal(d.Modifier)
		msa := w.SA
		if d.OtherAssets {
			msa = w.SA2
		}
		mod, err := modifiers.ReadModifier(msa, mj, assets.IgnoreMissing)
		if err == modifiers.ErrNoModifier {
			r.NoModifier = true
			return
		}
		if err != nil {
			r.Err = fmt.Errorf("read modifier: %w", err)
			return
		}
		eng := w.Engine(d.MaxField)
		if d.Pre != nil {
			pj, _ := json.Marshal(d.Pre)
			pre, err := modifiers.ReadModifier(w.SA, pj, assets.IgnoreMissing)
			if err != nil {
				r.NoModifier = true
				return
			}
			modifiers.Apply(eng, w.Env, w.SA, c, pre, func(e flows.Event) {})
		}
		r.Before, _ = json.Marshal(c)
		r.ContactBefore1 = c.Clone()
		r.Modified = modifiers.Apply(eng, w.Env, w.SA, c, mod, func(e flows.Event) {
			b, _ := json.Marshal(e)
			r.Events = append(r.Events, b)
			r.EventTypes = append(r.EventTypes, e.Type())
		})
		r.After, _ = json.Marshal(c)
		r.Modified2 = modifiers.Apply(eng, w.Env, w.SA, c, mod, func(e flows.Event) {
			b, _ := json.Marshal(e)
			r.Events2 = append(r.Events2, b)
			r.EventTypes2 = append(r.EventTypes2, e.Type())
		})
		r.After2, _ = json.Marshal(c)
		r.ContactAfter = c
	})
	return r
}
