package cf

import (
	"encoding/json"
	"strings"
	"time"
)

// The reference semantics of the query groups, written by hand over the contact's JSON view and
// independent of contactql's evaluator: one predicate per group of QueryGroups. A property with
// several values (URNs) satisfies `=` and `~` if any value does and `!=` if every value does (so a
// contact without any value satisfies `!=`); `= ""` / `!= ""` test for the absence / presence of a
// value; text is compared trimmed and case-insensitively; location fields by the location's name.

type refURN struct{ scheme, path string }

func (v *View) refURNs() []refURN {
	var out []refURN
	for _, u := range v.URNs {
		scheme, rest, _ := strings.Cut(u, ":")
		if i := strings.IndexAny(rest, "?#"); i >= 0 {
			rest = rest[:i]
		}
		out = append(out, refURN{scheme, rest})
	}
	return out
}

func (v *View) pathsOf(scheme string) []string {
	var out []string
	for _, u := range v.refURNs() {
		if scheme == "" || u.scheme == scheme {
			out = append(out, u.path)
		}
	}
	return out
}

func norm(s string) string { return strings.TrimSpace(strings.ToLower(s)) }

func anyEq(vals []string, x string) bool {
	for _, s := range vals {
		if norm(s) == norm(x) {
			return true
		}
	}
	return false
}

func allNe(vals []string, x string) bool { return !anyEq(vals, x) }

// fieldMember returns the named member of a field's stored value (text, number, datetime, state...).
func (v *View) fieldMember(key, member string) (any, bool) {
	raw, ok := v.Fields[key]
	if !ok {
		return nil, false
	}
	var m map[string]any
	if json.Unmarshal([]byte(raw), &m) != nil {
		return nil, false
	}
	x, ok := m[member]
	return x, ok && x != nil
}

func (v *View) fieldText(key string) []string {
	if x, ok := v.fieldMember(key, "text"); ok {
		if s, _ := x.(string); s != "" {
			return []string{s}
		}
	}
	return nil
}

func (v *View) fieldNumber(key string) (float64, bool) {
	x, ok := v.fieldMember(key, "number")
	if !ok {
		return 0, false
	}
	f, ok := x.(float64)
	return f, ok
}

func locationName(path string) string {
	parts := strings.Split(path, ">")
	return strings.TrimSpace(parts[len(parts)-1])
}

// CreatedOn is when every contact of the family was created.
var CreatedOn = time.Date(2020, 1, 1, 12, 0, 0, 0, time.UTC)

// RefMatches says whether the contact with this view matches the query of QueryGroups[i]. tz is the
// timezone in force (the contact's own if it has one, else the environment's): calendar-day
// comparisons are made there.
func RefMatches(i int, v *View, tz *time.Location) bool {
	name := []string{}
	if v.Name != "" {
		name = []string{v.Name}
	}
	lang := []string{}
	if v.Language != "" {
		lang = []string{v.Language}
	}
	age, hasAge := v.fieldNumber("age")
	switch QueryGroups[i].Name {
	case "Q name":
		return anyEq(name, "Ann")
	case "Q noname":
		return len(name) == 0
	case "Q lang":
		return anyEq(lang, "eng")
	case "Q tel":
		return anyEq(v.pathsOf("tel"), "+12065551212")
	case "Q hastwitter":
		return len(v.pathsOf("twitter")) > 0
	case "Q notel":
		return len(v.pathsOf("tel")) == 0
	case "Q urn":
		for _, p := range v.pathsOf("") {
			if strings.Contains(norm(p), "5551") {
				return true
			}
		}
		return false
	case "Q created":
		return true // every contact of the family was created on 2020-01-01
	case "Q seen":
		return v.LastSeen != ""
	case "Q ticket":
		return v.Ticket != ""
	case "Q gender":
		return anyEq(v.fieldText("gender"), "F")
	case "Q age":
		return hasAge && age > 18
	case "Q nojoined":
		_, has := v.fieldMember("joined", "datetime")
		return !has
	case "Q state":
		if x, ok := v.fieldMember("state", "state"); ok {
			return norm(locationName(x.(string))) == norm("Kigali City")
		}
		return false
	case "Q and":
		return anyEq(v.fieldText("gender"), "F") && hasAge && age > 18
	case "Q or":
		return anyEq(name, "Bob") || anyEq(lang, "fra")
	case "Q nottel":
		return allNe(v.pathsOf("tel"), "+12065551212")
	case "Q noturn":
		return allNe(v.pathsOf(""), "+12065551212")
	case "Q twann":
		return anyEq(v.pathsOf("twitter"), "ann")
	case "Q notgender":
		return allNe(v.fieldText("gender"), "F")
	case "Q notage":
		return !(hasAge && age == 30)
	case "Q namelike":
		for _, tok := range strings.FieldsFunc(norm(v.Name), func(r rune) bool { return !(r >= 'a' && r <= 'z' || r >= '0' && r <= '9') }) {
			if len(tok) > 8 {
				tok = tok[:8]
			}
			if strings.HasPrefix(tok, "ann") {
				return true
			}
		}
		return false
	case "Q createdday":
		y, m, d := CreatedOn.In(tz).Date()
		return y == 2020 && m == time.January && d == 1
	case "Q createdafter":
		y, m, d := CreatedOn.In(tz).Date()
		return y > 2020 || (y == 2020 && (m > time.January || d > 1))
	case "Q nested":
		return (anyEq(name, "Bob") || anyEq(lang, "fra")) && len(v.pathsOf("tel")) > 0
	}
	panic("no reference predicate for group " + QueryGroups[i].Name)
}
