package cf

import (
	"encoding/json"
	"fmt"
	"strings"

	"github.com/nyaruka/goflow/assets"
	"github.com/nyaruka/goflow/envs"
	"github.com/nyaruka/goflow/flows"
	"github.com/nyaruka/goflow/flows/resumes"
	"github.com/nyaruka/goflow/flows/triggers"
	"verif/mc"
	"verif/world"
)

// Actions is the contact-changing action alphabet of the engine space.
var Actions = []struct {
	Name string
	Make func(uuid string) J
}{
	{"name", func(u string) J { return J{"uuid": u, "type": "set_contact_name", "name": "Bob"} }},
	{"name-input", func(u string) J { return J{"uuid": u, "type": "set_contact_name", "name": "@input.text"} }},
	{"lang", func(u string) J { return J{"uuid": u, "type": "set_contact_language", "language": "fra"} }},
	{"field-gender", func(u string) J {
		return J{"uuid": u, "type": "set_contact_field", "field": J{"key": "gender", "name": "Gender"}, "value": "M"}
	}},
	{"field-age", func(u string) J {
		return J{"uuid": u, "type": "set_contact_field", "field": J{"key": "age", "name": "Age"}, "value": "17"}
	}},
	{"field-clear", func(u string) J {
		return J{"uuid": u, "type": "set_contact_field", "field": J{"key": "gender", "name": "Gender"}, "value": ""}
	}},
	{"field-state", func(u string) J {
		return J{"uuid": u, "type": "set_contact_field", "field": J{"key": "state", "name": "State"}, "value": "Kigali"}
	}},
	{"groups-add", func(u string) J {
		return J{"uuid": u, "type": "add_contact_groups", "groups": []any{J{"uuid": world.GroupA, "name": "Group A"}, J{"uuid": world.GroupB, "name": "Group B"}}}
	}},
	{"groups-remove", func(u string) J {
		return J{"uuid": u, "type": "remove_contact_groups", "groups": []any{J{"uuid": world.GroupA, "name": "Group A"}}}
	}},
	{"groups-remove-all", func(u string) J {
		return J{"uuid": u, "type": "remove_contact_groups", "groups": []any{}, "all_groups": true}
	}},
	{"urn-add", func(u string) J {
		return J{"uuid": u, "type": "add_contact_urn", "scheme": "tel", "path": "+12065553333"}
	}},
	{"channel", func(u string) J {
		return J{"uuid": u, "type": "set_contact_channel", "channel": J{"uuid": world.ChanTel, "name": "Tel"}}
	}},
	{"status-blocked", func(u string) J { return J{"uuid": u, "type": "set_contact_status", "status": "blocked"} }},
	{"status-active", func(u string) J { return J{"uuid": u, "type": "set_contact_status", "status": "active"} }},
	{"timezone", func(u string) J { return J{"uuid": u, "type": "set_contact_timezone", "timezone": "Africa/Kigali"} }},
	{"ticket", func(u string) J {
		return J{"uuid": u, "type": "open_ticket", "topic": J{"uuid": world.TopicB, "name": "Support"}, "body": "help", "result_name": "Ticket"}
	}},
}

// EngineRoot is one root of the engine space: actions a then b (indices into Actions), optionally a
// msg wait between them, a trigger kind and a starting contact.
type EngineRoot struct {
	A       int    `json:"a"`
	B       int    `json:"b"`
	Wait    bool   `json:"wait"`
	Trigger string `json:"trigger"`
	Contact J      `json:"contact"`
	// RefreshPatch makes the contact carried by "refresh:" resumes from the session's own contact
	// (nil: world.RefreshedContact(), which differs in everything)
	RefreshPatch J      `json:"refresh_patch,omitempty"`
	Variant      string `json:"variant,omitempty"`
}

func (r *EngineRoot) String() string {
	w := "then"
	if r.Wait {
		w = "wait"
	}
	v := ""
	if r.Variant != "" {
		v = ", refreshed contact differs in: " + r.Variant
	}
	return fmt.Sprintf("%s %s %s (%s trigger%s)", Actions[r.A].Name, w, Actions[r.B].Name, r.Trigger, v)
}

func (r *EngineRoot) flow() J {
	f := 0
	var nodes []any
	n0 := J{"uuid": world.NodeUUID(f, 0), "actions": []any{Actions[r.A].Make(world.ActUUID(f, 0, 0))}, "exits": []any{J{"uuid": world.ExitUUID(f, 0, 0), "destination_uuid": world.NodeUUID(f, 1)}}}
	nodes = append(nodes, n0)
	if r.Wait {
		w := J{"uuid": world.NodeUUID(f, 1),
			"router": J{"type": "switch", "operand": "@input.text", "wait": J{"type": "msg"},
				"cases":                 []any{},
				"categories":            []any{J{"uuid": world.UUID("cf.cat"), "name": "All", "exit_uuid": world.ExitUUID(f, 1, 0)}},
				"default_category_uuid": world.UUID("cf.cat")},
			"exits": []any{J{"uuid": world.ExitUUID(f, 1, 0), "destination_uuid": world.NodeUUID(f, 2)}}}
		nodes = append(nodes, w)
		nodes = append(nodes, J{"uuid": world.NodeUUID(f, 2), "actions": []any{Actions[r.B].Make(world.ActUUID(f, 2, 0))}, "exits": []any{J{"uuid": world.ExitUUID(f, 2, 0)}}})
	} else {
		nodes = append(nodes, J{"uuid": world.NodeUUID(f, 1), "actions": []any{Actions[r.B].Make(world.ActUUID(f, 1, 0))}, "exits": []any{J{"uuid": world.ExitUUID(f, 1, 0)}}})
	}
	return J{"uuid": world.FlowUUID(0), "name": "Flow 0", "spec_version": "13.5.0", "language": "eng", "type": "messaging", "nodes": nodes}
}

// World builds the world.Root for this engine root.
func (r *EngineRoot) World() *world.Root {
	return &world.Root{Assets: Assets([]any{r.flow()}), Trigger: r.Trigger, Contact: r.Contact, TrigMsg: "Cat", RefreshPatch: r.RefreshPatch}
}

// EngineContacts: per status a minimal and a rich contact, with and without wrong stored
// query-group membership.
func EngineContacts() []J {
	var out []J
	for _, s := range []string{"active", "blocked", "stopped", "archived"} {
		for _, rich := range []bool{false, true} {
			for _, wq := range []int{-1, 9, 2} {
				c := J{"uuid": world.UUID("contact"), "id": 1234, "status": s, "created_on": "2020-01-01T12:00:00.000000000Z"}
				var gs []any
				if rich {
					c["name"] = "Ann"
					c["language"] = "eng"
					c["urns"] = []any{URNTel, URNTwitter}
					c["fields"] = J{"gender": J{"text": "F"}, "age": J{"text": "30", "number": 30}}
					if s == "active" {
						gs = append(gs, J{"uuid": world.GroupA, "name": "Group A"})
					}
				}
				if wq >= 0 {
					gs = append(gs, J{"uuid": QGroupUUID(wq), "name": QueryGroups[wq].Name})
				}
				if len(gs) > 0 {
					c["groups"] = gs
				}
				out = append(out, c)
				if rich && wq == -1 {
					// seen more recently than any message this session will receive (a late message)
					late := J{}
					for k, v := range c {
						late[k] = v
					}
					late["last_seen_on"] = "2031-01-01T00:00:00.000000000Z"
					out = append(out, late)
				}
			}
		}
	}
	return out
}

// EngineRoots enumerates the engine space.
func EngineRoots() []EngineRoot {
	var out []EngineRoot
	contacts := EngineContacts()
	for a := range Actions {
		for b := range Actions {
			for _, w := range []bool{false, true} {
				for _, tr := range []string{"manual", "msg"} {
					for _, c := range contacts {
						out = append(out, EngineRoot{A: a, B: b, Wait: w, Trigger: tr, Contact: c})
					}
				}
			}
		}
	}
	return out
}

// RefreshBase is the contact of the single-aspect refresh family: the first action of those roots
// (set name to Bob) does not change it.
func RefreshBase() J {
	return J{
		"uuid": world.UUID("contact"), "id": 1234, "name": "Bob", "language": "eng", "status": "active", "timezone": "America/New_York",
		"created_on": "2020-01-01T12:00:00.000000000Z",
		"urns":       []any{URNTel, URNTwitter2},
		"groups":     []any{J{"uuid": world.GroupA, "name": "Group A"}},
		"fields":     J{"gender": J{"text": "F"}, "age": J{"text": "30", "number": 30}},
		"ticket":     J{"uuid": world.UUID("ticket-0"), "topic": J{"uuid": world.TopicA, "name": "General"}, "assignee": J{"email": "bob@nyaruka.com", "name": "Bob"}},
	}
}

// RefreshVariants are patches (see world.Root.RefreshPatch) over the session's own contact: the
// contact a caller hands to a resume when exactly one thing about the contact changed while the
// session waited (or nothing at all).
func RefreshVariants() []struct {
	Name  string
	Patch J
} {
	type variant = struct {
		Name  string
		Patch J
	}
	baseTicket := func() J { return RefreshBase()["ticket"].(J) }
	tk := func(edit func(t J)) J {
		t := baseTicket()
		edit(t)
		return J{"ticket": t}
	}
	return []variant{
		{"same", J{}},
		{"name", J{"name": "Zed"}},
		{"name-removed", J{"name": nil}},
		{"language", J{"language": "fra"}},
		{"language-removed", J{"language": nil}},
		{"status", J{"status": "blocked", "groups": nil}},
		{"timezone", J{"timezone": "Africa/Kigali"}},
		{"timezone-removed", J{"timezone": nil}},
		{"urn-added", J{"urns": []any{URNTel, URNTwitter2, URNTel2}}},
		{"urn-removed", J{"urns": []any{URNTel}}},
		{"urns-reordered", J{"urns": []any{URNTwitter2, URNTel}}},
		{"urn-affinity", J{"urns": []any{URNTel + "?channel=" + world.ChanTel, URNTwitter2}}},
		{"urn-display", J{"urns": []any{URNTel, "twitterid:123#anna"}}},
		{"group-added", J{"groups+": []any{J{"uuid": world.GroupB, "name": "Group B"}}}},
		{"group-removed", J{"groups-": []any{world.GroupA}}},
		{"field-changed", J{"fields": J{"gender": J{"text": "F"}, "age": J{"text": "31", "number": 31}}}},
		{"field-removed", J{"fields": J{"age": J{"text": "30", "number": 30}}}},
		{"field-added", J{"fields": J{"gender": J{"text": "F"}, "age": J{"text": "30", "number": 30}, "state": J{"text": "Kigali", "state": "Rwanda > Kigali City"}}}},
		{"ticket-topic", tk(func(t J) { t["topic"] = J{"uuid": world.TopicB, "name": "Support"} })},
		{"ticket-assignee", tk(func(t J) { t["assignee"] = J{"email": "jim@nyaruka.com", "name": "Jim"} })},
		{"ticket-unassigned", tk(func(t J) { delete(t, "assignee") })},
		{"ticket-other", tk(func(t J) { t["uuid"] = world.UUID("ticket-1") })},
		{"ticket-closed", J{"ticket": nil}},
		{"last-seen", J{"last_seen_on": "2031-01-01T00:00:00.000000000Z"}},
		{"last-seen-earlier", J{"last_seen_on": "2021-01-01T00:00:00.000000000Z"}},
	}
}

// RefreshRoots: set-name-to-Bob (a no-op on RefreshBase), a msg wait, then every action; the resume
// carries one of the variants.
func RefreshRoots() []EngineRoot {
	var out []EngineRoot
	for _, v := range RefreshVariants() {
		for b := range Actions {
			for _, tr := range []string{"manual", "msg"} {
				out = append(out, EngineRoot{A: 0, B: b, Wait: true, Trigger: tr, Contact: RefreshBase(), RefreshPatch: v.Patch, Variant: v.Name})
			}
		}
	}
	return out
}

// Histories are the resume histories explored from every root.
// ("live|" = the session object is kept; otherwise it is marshalled and read back before the resume;
// env:far = the resume carries an environment in a timezone where the calendar day differs)
// env:mid = a timezone in which the contacts' creation instant is exactly a local midnight
// "stale-none|", "stale-all|": the session is read back with a stored membership of the query-based
// groups that is stale (none / all of them), as after the groups' queries were edited meanwhile
// "again": a second session started with the very contact object the first trigger holds
// "!expire": the environment arrives with a run_expiration resume, which brings neither message nor contact
var Histories = [][]string{{}, {"msg:Dog"}, {"refresh:Dog"}, {"env:far:Dog"}, {"live|env:far:Dog"}, {"env:mid:Dog"}, {"env:far:!expire"}, {"live|env:far:!expire"}, {"expire"}, {"again"}, {"stale-none|expire"}, {"stale-all|expire"}, {"stale-all|msg:Dog"}}

// SprintObs is what one engine call exposes to the contact-family oracles.
type SprintObs struct {
	Call       string // "start" or the resume event
	Before     []byte // contact JSON before the call
	After      []byte // contact JSON after
	Events     [][]byte
	EventTypes []string
	InputTime  string           // time of the received message, "" if none
	Session    flows.Session    // the live object: it moves on when the history continues without a restart
	Contact    *flows.Contact   // the session's contact at the time of the observation (a clone)
	Env        envs.Environment // the session's environment at that time
	Err        error
	Panic      string
	Status     flows.SessionStatus
}

// Execute runs root + history and returns one observation per call.
func Execute(r *EngineRoot, hist []string) ([]*SprintObs, error) {
	root := r.World()
	var out []*SprintObs
	var herr error
	observe := func(call string, x *world.Exec, before []byte, inputTime string) {
		o := &SprintObs{Call: call, Before: before, InputTime: inputTime, Session: x.Session, Err: x.Err}
		if x.Err == nil {
			o.After, _ = json.Marshal(x.Session.Contact())
			o.Contact = x.Session.Contact().Clone()
			o.Env = x.Session.Environment()
			o.Status = x.Session.Status()
			if x.Sprint != nil {
				for _, e := range x.Sprint.Events() {
					b, _ := json.Marshal(e)
					o.Events = append(o.Events, b)
					o.EventTypes = append(o.EventTypes, e.Type())
				}
			}
		}
		out = append(out, o)
	}
	p := mc.Guard(func() {
		x, err := root.Start(world.Step{})
		if err != nil {
			herr = err
			return
		}
		// the contact before the first sprint is the trigger's contact as the engine reads it
		tj, _ := json.Marshal(r.Contact)
		c0, err := flows.ReadContact(x.SA, tj, assets.IgnoreMissing)
		if err != nil {
			herr = err
			return
		}
		before, _ := json.Marshal(c0)
		it := ""
		if r.Trigger == "msg" {
			it = "2025-05-04T12:30:00.123456789Z"
		}
		observe("start", x, before, it)
		for _, ev := range hist {
			if ev == "again" {
				// a second session of the same flow on the same engine and assets, whose trigger holds the
				// very contact object the first trigger holds (a host that starts several flows for a
				// contact it has loaded once)
				if x.Err != nil {
					return
				}
				first := x.Session.Trigger()
				before, _ := json.Marshal(first.Contact())
				trig := triggers.NewBuilder(first.Environment(), first.Flow(), first.Contact()).Manual().Build()
				x.Calls++
				x.Session, x.Sprint, x.Err = x.Eng.NewSession(x.SA, trig)
				observe("again", x, before, "")
				continue
			}
			if x.Err != nil || x.Session.Status() != flows.SessionStatusWaiting {
				return
			}
			live := strings.HasPrefix(ev, "live|")
			ev = strings.TrimPrefix(ev, "live|")
			stale := ""
			for _, k := range []string{"none", "all"} {
				if strings.HasPrefix(ev, "stale-"+k+"|") {
					stale, ev = k, strings.TrimPrefix(ev, "stale-"+k+"|")
				}
			}
			if stale != "" {
				// the stored session's contact carries a membership of the query-based groups that is stale
				// (as after the groups' queries were edited while the session was stored): none of them, or
				// all of them; static groups are kept
				b, err := json.Marshal(x.Session)
				if err != nil {
					herr = err
					return
				}
				var doc map[string]any
				json.Unmarshal(b, &doc)
				cj, _ := doc["contact"].(map[string]any)
				if cj == nil {
					herr = fmt.Errorf("session JSON has no contact")
					return
				}
				isQ := map[string]bool{}
				for i := range QueryGroups {
					isQ[QGroupUUID(i)] = true
				}
				gs := []any{}
				if old, ok := cj["groups"].([]any); ok {
					for _, g := range old {
						if gm, ok := g.(map[string]any); ok && !isQ[fmt.Sprint(gm["uuid"])] {
							gs = append(gs, g)
						}
					}
				}
				if stale == "all" {
					for i := range QueryGroups {
						gs = append(gs, J{"uuid": QGroupUUID(i), "name": QueryGroups[i].Name})
					}
				}
				cj["groups"] = gs
				nb, _ := json.Marshal(doc)
				s, err := x.Eng.ReadSession(x.SA, nb, assets.IgnoreMissing)
				if err != nil {
					herr = fmt.Errorf("read of the session with stale membership: %w", err)
					return
				}
				x.Session = s
			} else if !live {
				if err := x.Restart(); err != nil {
					herr = err
					return
				}
			}
			before, _ := json.Marshal(x.Session.Contact())
			if err := x.Apply(world.Step{Ev: ev}); err != nil {
				herr = err
				return
			}
			it := ""
			if mr, ok := x.LastResume.(*resumes.MsgResume); ok {
				tb, _ := json.Marshal(mr.ResumedOn())
				json.Unmarshal(tb, &it)
			}
			call := ev
			if live {
				call = "live-" + ev
			}
			if stale != "" {
				call = "stale-" + stale + "-" + ev
			}
			observe(call, x, before, it)
		}
	})
	if p != "" {
		out = append(out, &SprintObs{Call: "panic", Panic: p})
	}
	return out, herr
}
