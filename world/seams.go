// Package world generates the closed worlds the engine-level checks explore (assets, flow graphs,
// contacts, triggers, resumes), owns the process-global nondeterminism seams of gocommon, and
// canonicalises session state.
package world

import (
	"crypto/sha1"
	"fmt"
	"math/rand"
	"time"

	"github.com/nyaruka/gocommon/dates"
	"github.com/nyaruka/gocommon/random"
	"github.com/nyaruka/gocommon/uuids"
)

// J is a JSON object under construction.
type J = map[string]any

// UUID returns a deterministic, valid v4-shaped UUID for a definition object name.
func UUID(name string) string {
	h := sha1.Sum([]byte(name))
	b := h[:16]
	b[6] = (b[6] & 0x0f) | 0x40
	b[8] = (b[8] & 0x3f) | 0x80
	return fmt.Sprintf("%x-%x-%x-%x-%x", b[0:4], b[4:6], b[6:8], b[8:10], b[10:16])
}

// counterUUIDs generates 00000000-0000-4000-8000-<counter> so that UUIDs created at run time are
// recognisable and a replay from the same reset produces the same ones.
type counterUUIDs struct{ n int }

func (g *counterUUIDs) NextV4() uuids.UUID {
	g.n++
	return uuids.UUID(fmt.Sprintf("00000000-0000-4000-8000-%012x", g.n))
}
func (g *counterUUIDs) NextV7() uuids.UUID {
	g.n++
	return uuids.UUID(fmt.Sprintf("00000000-0000-7000-8000-%012x", g.n))
}

// Draws is the explorer-owned random source: every draw asks the chooser for an index into Menu
// (default answer 0). rand.Float64 = Int63 / 2^63, so any draw on the 2^-53 grid can be forced
// exactly. Hit counts the draws made.
type Draws struct {
	Menu   []float64
	Choose func(n int, label string) int
	Hit    int
}

// DrawMenu is the default menu of draws: 0 (first bucket), 0.5, and the largest value below 1.
var DrawMenu = []float64{0, 0.5, 1 - 1.0/(1<<53)}

func (d *Draws) Int63() int64 {
	d.Hit++
	v := d.Menu[0]
	if d.Choose != nil {
		v = d.Menu[d.Choose(len(d.Menu), "draw")]
	}
	// math/rand: Float64 = float64(Int63()) / 2^63, so a value v on the 2^-53 grid is forced exactly by
	// returning v * 2^63
	return int64(v*(1<<53)) << 10
}
func (d *Draws) Uint64() uint64 { return uint64(d.Int63()) }
func (d *Draws) Seed(int64)     {}

// ClockStart is where every replay's clock starts.
var ClockStart = time.Date(2025, 5, 4, 12, 30, 45, 123456789, time.UTC)

// ClockStep is the step of the sequential clock (odd so that nanosecond truncation shows).
var ClockStep = time.Second + time.Nanosecond

// Reset re-arms all process-global seams; called before every replay so that equal histories give
// equal bytes. It returns the scripted random source in use.
func Reset() *Draws {
	dates.SetNowFunc(dates.NewSequentialNow(ClockStart, ClockStep))
	uuids.SetGenerator(&counterUUIDs{})
	d := &Draws{Menu: DrawMenu}
	random.SetGenerator(rand.New(d))
	return d
}

// ResetWithStep is Reset with an explicit clock step (0 exercises equal-timestamp ties).
func ResetWithStep(step time.Duration) *Draws {
	d := Reset()
	dates.SetNowFunc(dates.NewSequentialNow(ClockStart, step))
	return d
}
