package world

import (
	"bytes"
	"encoding/json"
	"errors"
	"fmt"
	"github.com/nyaruka/gocommon/dates"
	"io"
	"net/http"
	"strings"
	"time"

	"github.com/nyaruka/gocommon/httpx"
	"github.com/nyaruka/gocommon/urns"
	"github.com/nyaruka/gocommon/uuids"
	"github.com/nyaruka/goflow/assets"
	"github.com/nyaruka/goflow/envs"
	"github.com/nyaruka/goflow/flows"
	"github.com/nyaruka/goflow/flows/engine"
	"github.com/nyaruka/goflow/flows/resumes"
	"github.com/nyaruka/goflow/flows/triggers"
	"github.com/nyaruka/goflow/services/webhooks"
	"github.com/nyaruka/goflow/utils"
	"github.com/shopspring/decimal"
	"verif/mc"
)

// Options are the engine options a root fixes (0 = engine default).
type Options struct {
	MaxSteps    int `json:"max_steps,omitempty"`
	MaxResumes  int `json:"max_resumes,omitempty"`
	MaxTemplate int `json:"max_template,omitempty"`
	MaxField    int `json:"max_field,omitempty"`
	MaxResult   int `json:"max_result,omitempty"`
	// set to true for explicit zeros
	Explicit bool `json:"explicit,omitempty"`
}

// HTTPAnswers is the explorer-owned HTTP layer: every request asks the chooser for an index into
// HTTPMenu (default answer 0).
type HTTPAnswers struct {
	Choose func(n int, label string) int
	Hit    int
	URLs   []string
}

// HTTPMenu is the menu of answers the environment can give to an HTTP request.
var HTTPMenu = []struct {
	Status int
	Body   string
}{
	{200, `{"ok": true, "n": 1}`}, // insignificant whitespace, as real servers send
	{400, `{"errors":["bad"]}`},
	{0, ``}, // connection error
	{200, `not json`},
}

func (h *HTTPAnswers) Do(client *http.Client, request *http.Request) (*http.Response, error) {
	a := 0
	if h.Choose != nil {
		a = h.Choose(len(HTTPMenu), "http")
	}
	h.Hit++
	h.URLs = append(h.URLs, request.URL.String())
	m := HTTPMenu[a]
	// a request may name the body it wants for the default answer: http://host/path?body=<json>
	if b := request.URL.Query().Get("body"); b != "" && a == 0 {
		m.Body = b
	}
	if m.Status == 0 {
		return nil, fmt.Errorf("unable to connect to server")
	}
	return &http.Response{
		Request: request, Status: fmt.Sprintf("%d %s", m.Status, http.StatusText(m.Status)), StatusCode: m.Status,
		Proto: "HTTP/1.0", ProtoMajor: 1, ProtoMinor: 0,
		Header:        http.Header{"Content-Type": []string{"application/json"}, "X-Verif-A": []string{"1"}, "X-Verif-B": []string{"2"}},
		Body:          io.NopCloser(bytes.NewReader([]byte(m.Body))),
		ContentLength: int64(len(m.Body)),
	}, nil
}

// NewEngine builds an engine with deterministic fake services and the given options.
func NewEngine(o Options) flows.Engine {
	b := engine.NewBuilder().
		WithEmailServiceFactory(func(flows.SessionAssets) (flows.EmailService, error) { return emailSvc{}, nil }).
		WithWebhookServiceFactory(webhooks.NewServiceFactory(http.DefaultClient, nil, nil, map[string]string{"User-Agent": "goflow-verif", "X-Engine": "verif"}, 10000)).
		WithClassificationServiceFactory(func(c *flows.Classifier) (flows.ClassificationService, error) { return classSvc{c}, nil }).
		WithAirtimeServiceFactory(func(flows.SessionAssets) (flows.AirtimeService, error) { return airtimeSvc{}, nil })
	if o.MaxSteps != 0 || o.Explicit {
		b = b.WithMaxStepsPerSprint(o.MaxSteps)
	}
	if o.MaxResumes != 0 || o.Explicit {
		b = b.WithMaxResumesPerSession(o.MaxResumes)
	}
	if o.MaxTemplate != 0 || o.Explicit {
		b = b.WithMaxTemplateChars(o.MaxTemplate)
	}
	if o.MaxField != 0 || o.Explicit {
		b = b.WithMaxFieldChars(o.MaxField)
	}
	if o.MaxResult != 0 || o.Explicit {
		b = b.WithMaxResultChars(o.MaxResult)
	}
	return b.Build()
}

type emailSvc struct{}

func (emailSvc) Send(addresses []string, subject, body string) error { return nil }

type classSvc struct{ c *flows.Classifier }

func (s classSvc) Classify(env envs.Environment, input string, logHTTP flows.HTTPLogCallback) (*flows.Classification, error) {
	if strings.Contains(input, "fail") {
		return nil, fmt.Errorf("classifier unavailable")
	}
	logHTTP(&flows.HTTPLog{
		HTTPLogWithoutTime: &flows.HTTPLogWithoutTime{
			LogWithoutTime: &httpx.LogWithoutTime{URL: "http://nlu.example.com/classify", StatusCode: 200, Request: "GET /classify HTTP/1.1\r\n\r\n", Response: "HTTP/1.0 200 OK\r\n\r\n{}", ElapsedMS: 1},
			Status:         flows.CallStatusSuccess,
		},
		CreatedOn: ClockStart,
	})
	intents := []flows.ExtractedIntent{}
	conf := decimal.RequireFromString("0.9")
	for _, in := range s.c.Intents() {
		intents = append(intents, flows.ExtractedIntent{Name: in, Confidence: conf})
		conf = conf.Div(decimal.RequireFromString("2"))
	}
	return &flows.Classification{Intents: intents, Entities: map[string][]flows.ExtractedEntity{}}, nil
}

type airtimeSvc struct{}

func (airtimeSvc) Transfer(sender urns.URN, recipient urns.URN, amounts map[string]decimal.Decimal, logHTTP flows.HTTPLogCallback) (*flows.AirtimeTransfer, error) {
	amt, ok := amounts["USD"]
	if !ok {
		return nil, fmt.Errorf("no amount configured for transfers in USD")
	}
	return &flows.AirtimeTransfer{UUID: flows.AirtimeTransferUUID(uuids.NewV4()), Sender: sender, Recipient: recipient, Currency: "USD", Amount: amt}, nil
}

// Root is the initial condition of a search: the program (assets), the trigger and the options.
type Root struct {
	Flows   *FlowSet `json:"flows,omitempty"`  // generated flows, or
	Assets  J        `json:"assets,omitempty"` // a complete asset document
	Trigger string   `json:"trigger"`          // manual | msg | flow_action | manual_batch | flow_action_batch | voice
	TrigMsg string   `json:"trig_msg,omitempty"`
	Contact J        `json:"contact,omitempty"`
	Env     J        `json:"env,omitempty"`
	Opt     Options  `json:"opt"`
	Step    int64    `json:"clock_step_ns,omitempty"` // clock step override; -1 = zero step
	// ClockZone, if set, is the zone the host's clock reports its instants in (default UTC)
	ClockZone string `json:"clock_zone,omitempty"`
	// DrawMenu overrides the menu of random draws
	DrawMenu []float64 `json:"draw_menu,omitempty"`
	// MsgURN is the URN incoming messages come from (default tel:+12065551212); Parent overrides the
	// parent run summary of flow_action triggers
	MsgURN string `json:"msg_urn,omitempty"`
	Parent J      `json:"parent,omitempty"`
	// Refreshed is the contact carried by "refresh:<text>" resume events
	Refreshed J `json:"refreshed,omitempty"`
	// RefreshPatch, if set, makes the refreshed contact from the session's own contact at that moment:
	// top-level members are replaced (null deletes); "groups+" appends group references and "groups-"
	// removes groups by UUID. This is how a caller's contact differs in one aspect only.
	RefreshPatch J `json:"refresh_patch,omitempty"`
	// FreshAssets rebuilds the SessionAssets (cold flow cache) for every execution instead of
	// sharing one per root
	FreshAssets bool `json:"fresh_assets,omitempty"`

	sa      flows.SessionAssets
	saRaw   []byte
	trigRaw []byte
}

// Step is one element of a history: a resume event, whether the host restarts (marshal + read)
// before applying it, and scripted environment answers consumed during the sprint.
type Step struct {
	Ev      string `json:"ev"`
	Restart bool   `json:"restart,omitempty"`
	Choices []int  `json:"choices,omitempty"` // environment answers (random draws, HTTP) in order
}

// Events is the default resume menu.
var Events = []string{"msg:a", "msg:zz", "timeout", "expire"}

// Exec is a live execution of a root.
type Exec struct {
	Root      *Root
	SA        flows.SessionAssets
	AssetsRaw []byte
	Eng       flows.Engine
	Session   flows.Session
	Sprint    flows.Sprint // last sprint
	Err       error        // error of last call
	Draws     *Draws
	HTTP      *HTTPAnswers
	Chooser   *mc.Chooser // choices of the last call
	Calls     int
	// LastResume is the resume object of the last Apply (nil after Start)
	LastResume flows.Resume
}

func (x *Exec) arm(choices []int) {
	x.Chooser = mc.NewChooser(choices)
	x.Draws.Choose = x.Chooser.Choose
	x.HTTP.Choose = x.Chooser.Choose
}

func (r *Root) AssetDoc() J {
	if r.Assets != nil {
		return r.Assets
	}
	return WithFlows(BaseAssets(), RenderFlows(*r.Flows))
}

// ParentSummary is the run summary used by flow_action triggers.
func ParentSummary() J {
	return J{
		"uuid": UUID("parent-run"),
		"flow": J{"uuid": UUID("parent-flow"), "name": "Parent Flow"},
		"contact": J{
			"uuid": UUID("parent-contact"), "name": "Pat", "created_on": "2019-01-01T12:00:00.000000000Z",
			"language": "spa", "urns": []any{"tel:+12065553333"}, "fields": J{"age": J{"text": "33", "number": 33}},
		},
		"status": "active",
		"results": J{
			"role": J{"created_on": "2000-01-01T00:00:00.000000000Z", "input": "a reporter", "name": "Role",
				"node_uuid": UUID("parent-node"), "value": "reporter", "category": "Reporter"},
		},
	}
}

func (r *Root) msgURN() string {
	if r.MsgURN != "" {
		return r.MsgURN
	}
	return "tel:+12065551212"
}

// TriggerJSON renders the root's trigger.
func (r *Root) TriggerJSON() J {
	contact := r.Contact
	if contact == nil {
		contact = DefaultContact()
	}
	env := r.Env
	if env == nil {
		env = DefaultEnv()
	}
	flowUUID := FlowUUID(0)
	if r.Assets != nil {
		if fl, ok := r.Assets["flows"].([]any); ok && len(fl) > 0 {
			if f0, ok := fl[0].(J); ok {
				flowUUID, _ = f0["uuid"].(string)
			}
		}
	}
	t := J{
		"triggered_on": "2025-05-04T12:30:00.123456789Z",
		"flow":         J{"uuid": flowUUID, "name": "Flow 0"},
		"contact":      contact,
		"environment":  env,
	}
	kind := r.Trigger
	if strings.HasSuffix(kind, "_batch") {
		kind = strings.TrimSuffix(kind, "_batch")
		t["batch"] = true
	}
	switch kind {
	case "manual":
		t["type"] = "manual"
	case "msg":
		text := r.TrigMsg
		if text == "" {
			text = "a"
		}
		t["type"] = "msg"
		t["msg"] = J{"uuid": UUID("trigger-msg"), "urn": r.msgURN(), "channel": J{"uuid": ChanTel, "name": "Tel"}, "text": text}
	case "flow_action":
		t["type"] = "flow_action"
		if r.Parent != nil {
			t["run_summary"] = r.Parent
		} else {
			t["run_summary"] = ParentSummary()
		}
		t["history"] = J{"parent_uuid": UUID("parent-session"), "ancestors": 1, "ancestors_since_input": 1}
	case "voice":
		t["type"] = "manual"
		t["call"] = J{"channel": J{"uuid": ChanTel, "name": "Tel"}, "urn": "tel:+12065551212"}
	default:
		panic("unknown trigger kind " + r.Trigger)
	}
	return t
}

// Start resets the seams and starts a session for this root.
func (r *Root) Start(first Step) (*Exec, error) {
	x := &Exec{Root: r}
	switch {
	case r.Step == 0:
		x.Draws = Reset()
	case r.Step < 0:
		x.Draws = ResetWithStep(0)
	default:
		x.Draws = ResetWithStep(time.Duration(r.Step))
	}
	if r.ClockZone != "" {
		// the same instants, reported by the host's clock in a zone other than UTC
		if loc, err := time.LoadLocation(r.ClockZone); err == nil {
			step := ClockStep
			if r.Step < 0 {
				step = 0
			} else if r.Step > 0 {
				step = time.Duration(r.Step)
			}
			dates.SetNowFunc(dates.NewSequentialNow(ClockStart.In(loc), step))
		}
	}
	if r.DrawMenu != nil {
		x.Draws.Menu = r.DrawMenu
	}
	x.HTTP = &HTTPAnswers{}
	httpx.SetRequestor(x.HTTP)
	x.arm(first.Choices)

	var err error
	if r.FreshAssets || r.sa == nil {
		r.sa, r.saRaw, err = BuildAssets(r.AssetDoc())
		if err != nil {
			return nil, fmt.Errorf("assets: %w", err)
		}
		tj, _ := json.Marshal(r.TriggerJSON())
		r.trigRaw = tj
	}
	x.SA, x.AssetsRaw = r.sa, r.saRaw
	x.Eng = NewEngine(r.Opt)
	trig, err := triggers.ReadTrigger(x.SA, r.trigRaw, assets.IgnoreMissing)
	if err != nil {
		return nil, fmt.Errorf("trigger: %w", err)
	}
	x.Calls++
	x.Session, x.Sprint, x.Err = x.Eng.NewSession(x.SA, trig)
	return x, nil
}

// MakeResume builds the resume for an event name.
func MakeResume(ev string) flows.Resume {
	switch {
	case strings.HasPrefix(ev, "msg:"):
		text := strings.TrimPrefix(ev, "msg:")
		var atts []string
		if text == "att" {
			atts = []string{"image/jpeg:http://example.com/a.jpg"}
			text = ""
		}
		msg := flows.NewMsgIn(flows.MsgUUID(uuids.NewV4()), urns.URN("tel:+12065551212"), assets.NewChannelReference(assets.ChannelUUID(ChanTel), "Tel"), text, toAttachments(atts))
		return resumes.NewMsg(nil, nil, msg)
	case ev == "timeout":
		return resumes.NewWaitTimeout(nil, nil)
	case ev == "expire":
		return resumes.NewRunExpiration(nil, nil)
	case strings.HasPrefix(ev, "dial:"):
		return resumes.NewDial(nil, nil, flows.NewDial(flows.DialStatus(strings.TrimPrefix(ev, "dial:")), 5))
	}
	panic("unknown event " + ev)
}

// Restart marshals the session and reads it back (what a host does between sprints).
func (x *Exec) Restart() error {
	b, err := json.Marshal(x.Session)
	if err != nil {
		return fmt.Errorf("marshal: %w", err)
	}
	s, err := x.Eng.ReadSession(x.SA, b, assets.IgnoreMissing)
	if err != nil {
		return fmt.Errorf("read: %w", err)
	}
	x.Session = s
	return nil
}

// Apply performs one history step on the live execution.
func (x *Exec) Apply(st Step) error {
	if st.Restart {
		if err := x.Restart(); err != nil {
			return err
		}
	}
	x.arm(st.Choices)
	var res flows.Resume
	if strings.HasPrefix(st.Ev, "refresh:") {
		// a msg resume that carries a refreshed contact (Root.Refreshed, default: RefreshedContact())
		cj := x.Root.Refreshed
		if cj == nil {
			cj = RefreshedContact()
		}
		if x.Root.RefreshPatch != nil {
			cur, _ := json.Marshal(x.Session.Contact())
			cj = J{}
			json.Unmarshal(cur, &cj)
			for k, v := range x.Root.RefreshPatch {
				switch {
				case k == "groups+":
					gs, _ := cj["groups"].([]any)
					cj["groups"] = append(append([]any{}, gs...), v.([]any)...)
				case k == "groups-":
					var keep []any
					gs, _ := cj["groups"].([]any)
					for _, g := range gs {
						drop := false
						for _, u := range v.([]any) {
							drop = drop || g.(map[string]any)["uuid"] == u
						}
						if !drop {
							keep = append(keep, g)
						}
					}
					cj["groups"] = keep
				case v == nil:
					delete(cj, k)
				default:
					cj[k] = v
				}
			}
		}
		b, _ := json.Marshal(cj)
		contact, err := flows.ReadContact(x.SA, b, assets.IgnoreMissing)
		if err != nil {
			return fmt.Errorf("refreshed contact: %w", err)
		}
		msg := flows.NewMsgIn(flows.MsgUUID(uuids.NewV4()), urns.URN(x.Root.msgURN()), assets.NewChannelReference(assets.ChannelUUID(ChanTel), "Tel"), strings.TrimPrefix(st.Ev, "refresh:"), nil)
		res = resumes.NewMsg(nil, contact, msg)
	} else if strings.HasPrefix(st.Ev, "env:") {
		// "env:<which>:<text>": a msg resume that carries a changed environment (text "!expire" /
		// "!timeout": a run_expiration / wait_timeout resume carrying it instead)
		//   urns / none  the root's environment with that redaction policy
		//   alt          other date/time formats, timezone and number format
		//   far          the root's environment in a timezone 14 hours ahead of UTC
		parts := strings.SplitN(st.Ev, ":", 3)
		ej := J{}
		base := x.Root.Env
		if base == nil {
			base = DefaultEnv()
		}
		for k, v := range base {
			ej[k] = v
		}
		switch parts[1] {
		case "urns", "none":
			ej["redaction_policy"] = parts[1]
		case "far":
			ej["timezone"] = "Pacific/Kiritimati" // UTC+14: midday UTC is already the next day
		case "mid":
			ej["timezone"] = "Pacific/Tarawa" // UTC+12, no daylight saving: midday UTC is exactly the next local midnight
		case "alt":
			ej["date_format"] = "DD-MM-YYYY"
			ej["time_format"] = "tt:mm:ss"
			ej["timezone"] = "Africa/Kigali"
			ej["number_format"] = J{"decimal_symbol": ",", "digit_grouping_symbol": "."}
		}
		eb, _ := json.Marshal(ej)
		env, err := envs.ReadEnvironment(eb)
		if err != nil {
			return fmt.Errorf("resume environment: %w", err)
		}
		text := ""
		if len(parts) > 2 {
			text = parts[2]
		}
		switch text {
		case "!expire": // the environment arrives with a resume that brings neither message nor contact
			res = resumes.NewRunExpiration(env, nil)
		case "!timeout":
			res = resumes.NewWaitTimeout(env, nil)
		default:
			msg := flows.NewMsgIn(flows.MsgUUID(uuids.NewV4()), urns.URN(x.Root.msgURN()), assets.NewChannelReference(assets.ChannelUUID(ChanTel), "Tel"), text, nil)
			res = resumes.NewMsg(env, nil, msg)
		}
	} else if strings.HasPrefix(st.Ev, "msg:") && x.Root.MsgURN != "" {
		msg := flows.NewMsgIn(flows.MsgUUID(uuids.NewV4()), urns.URN(x.Root.msgURN()), assets.NewChannelReference(assets.ChannelUUID(ChanTel), "Tel"), strings.TrimPrefix(st.Ev, "msg:"), nil)
		res = resumes.NewMsg(nil, nil, msg)
	} else {
		res = MakeResume(st.Ev)
	}
	x.LastResume = res
	x.Calls++
	x.Sprint, x.Err = x.Session.Resume(res)
	return nil
}

// Run executes a root and a whole history; it stops at the first harness-level error.
func (r *Root) Run(hist []Step) (*Exec, error) {
	if len(hist) == 0 {
		hist = []Step{{}}
	}
	x, err := r.Start(hist[0])
	if err != nil {
		return nil, err
	}
	for _, st := range hist[1:] {
		if x.Err != nil {
			var ee *engine.Error
			if !errors.As(x.Err, &ee) {
				break
			}
		}
		if err := x.Apply(st); err != nil {
			return x, err
		}
	}
	return x, nil
}

func toAttachments(a []string) []utils.Attachment {
	out := make([]utils.Attachment, len(a))
	for i, s := range a {
		out[i] = utils.Attachment(s)
	}
	return out
}
