package world

import (
	"encoding/json"
	"fmt"

	"github.com/nyaruka/goflow/assets/static"
	"github.com/nyaruka/goflow/envs"
	"github.com/nyaruka/goflow/flows"
	"github.com/nyaruka/goflow/flows/engine"
)

// Well-known asset identities shared by all generated worlds.
var (
	ChanTel     = UUID("chan-tel")
	ChanTel2    = UUID("chan-tel2")
	ChanTwitter = UUID("chan-twitter")
	ChanNoSend  = UUID("chan-nosend")
	GroupA      = UUID("group-a")
	GroupB      = UUID("group-b")
	LabelA      = UUID("label-a")
	LabelB      = UUID("label-b")
	TopicA      = UUID("topic-a")
	TopicB      = UUID("topic-b")
	Classifier  = UUID("classifier")
	TemplateA   = UUID("template-a")
	OptInA      = UUID("optin-a")
)

// BaseAssets returns the small fixed asset set; flows and extra query groups are added by callers.
func BaseAssets() J {
	return J{
		"channels": []any{
			J{"uuid": ChanTel, "name": "Tel", "address": "+12065550000", "schemes": []any{"tel"}, "roles": []any{"send", "receive"}, "country": "US"},
			J{"uuid": ChanTwitter, "name": "Twitter", "address": "nyaruka", "schemes": []any{"twitter"}, "roles": []any{"send", "receive"}},
			J{"uuid": ChanNoSend, "name": "RecvOnly", "address": "+12065559999", "schemes": []any{"tel"}, "roles": []any{"receive"}, "country": "US"},
		},
		"classifiers": []any{
			J{"uuid": Classifier, "name": "Booking", "type": "wit", "intents": []any{"book_flight", "book_hotel"}},
		},
		"fields": []any{
			J{"uuid": UUID("field-gender"), "key": "gender", "name": "Gender", "type": "text"},
			J{"uuid": UUID("field-age"), "key": "age", "name": "Age", "type": "number"},
			J{"uuid": UUID("field-joined"), "key": "joined", "name": "Joined", "type": "datetime"},
			J{"uuid": UUID("field-state"), "key": "state", "name": "State", "type": "state"},
			J{"uuid": UUID("field-district"), "key": "district", "name": "District", "type": "district"},
		},
		"groups": []any{
			J{"uuid": GroupA, "name": "Group A"},
			J{"uuid": GroupB, "name": "Group B"},
		},
		"labels": []any{
			J{"uuid": LabelA, "name": "Label A"},
			J{"uuid": LabelB, "name": "Label B"},
		},
		"topics": []any{
			J{"uuid": TopicA, "name": "General"},
			J{"uuid": TopicB, "name": "Support"},
		},
		"users": []any{
			J{"email": "bob@nyaruka.com", "name": "Bob"},
			J{"email": "jim@nyaruka.com", "name": "Jim"},
		},
		"globals": []any{
			J{"key": "org_name", "name": "Org Name", "value": "Nyaruka"},
			J{"key": "secret", "name": "Secret", "value": "xyz"},
		},
		"optins": []any{
			J{"uuid": OptInA, "name": "Jokes"},
		},
		"resthooks": []any{
			J{"slug": "new-registration", "subscribers": []any{"http://localhost/hook"}},
		},
		"templates": []any{
			J{"uuid": TemplateA, "name": "affirmation", "translations": []any{
				J{"channel": J{"uuid": ChanTel, "name": "Tel"}, "locale": "eng", "status": "approved",
					"components": []any{J{"name": "body", "type": "body/text", "content": "Hi {{1}}", "variables": J{"1": 0}}},
					"variables":  []any{J{"type": "text"}}},
			}},
		},
		"locations": []any{
			J{"name": "Rwanda", "aliases": []any{"Ruanda"}, "children": []any{
				J{"name": "Kigali City", "aliases": []any{"Kigali"}, "children": []any{
					J{"name": "Gasabo", "children": []any{J{"name": "Gisozi"}, J{"name": "Ndera"}}},
					J{"name": "Nyarugenge", "children": []any{}},
				}},
				J{"name": "Eastern Province", "children": []any{}},
			}},
		},
		"flows": []any{},
	}
}

// WithFlows returns a copy of the asset doc with the flows member replaced.
func WithFlows(a J, flowDefs []any) J {
	out := J{}
	for k, v := range a {
		out[k] = v
	}
	out["flows"] = flowDefs
	return out
}

// BuildAssets creates real SessionAssets from an asset document.
func BuildAssets(doc J) (flows.SessionAssets, []byte, error) {
	b, err := json.Marshal(doc)
	if err != nil {
		return nil, nil, err
	}
	sa, err := BuildAssetsJSON(b)
	return sa, b, err
}

func BuildAssetsJSON(b []byte) (flows.SessionAssets, error) {
	src, err := static.NewSource(b)
	if err != nil {
		return nil, fmt.Errorf("static source: %w", err)
	}
	return engine.NewSessionAssets(envs.NewBuilder().Build(), src, nil)
}

// DefaultContact is the contact JSON used unless a check varies it.
func DefaultContact() J {
	return J{
		"uuid":       UUID("contact"),
		"id":         1234,
		"name":       "Ann",
		"language":   "eng",
		"status":     "active",
		"created_on": "2020-01-01T12:00:00.000000000Z",
		"urns":       []any{"tel:+12065551212", "twitter:ann"},
		"groups":     []any{J{"uuid": GroupA, "name": "Group A"}},
		"fields":     J{"gender": J{"text": "F"}},
	}
}

// RefreshedContact is the contact carried by "refresh:" resumes unless a root overrides it: the
// same person changed behind the engine's back.
func RefreshedContact() J {
	return J{
		"uuid":       UUID("contact"),
		"id":         1234,
		"name":       "Zed",
		"language":   "fra",
		"status":     "active",
		"created_on": "2020-01-01T12:00:00.000000000Z",
		"urns":       []any{"tel:+12065557777"},
		"groups":     []any{J{"uuid": GroupB, "name": "Group B"}},
		"fields":     J{"age": J{"text": "12", "number": 12}},
	}
}

// DefaultEnv is the environment JSON used unless a check varies it.
func DefaultEnv() J {
	return J{
		"date_format":       "YYYY-MM-DD",
		"time_format":       "tt:mm",
		"timezone":          "America/New_York",
		"allowed_languages": []any{"eng", "spa"},
		"default_country":   "US",
		"redaction_policy":  "none",
	}
}
