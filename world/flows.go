package world

import (
	"fmt"
	"strings"
)

// Node is one node of a generated flow graph: a kind from the structural alphabet plus the
// destination (node index, -1 = nowhere) of each of its exits.
type Node struct {
	Kind  string `json:"k"`
	Dests []int  `json:"d"`
}

// FlowSpec is a generated flow: its nodes; node 0 is the entry.
type FlowSpec struct {
	Nodes []Node `json:"nodes"`
	Type  string `json:"type,omitempty"` // messaging (default) or voice
	// Localized adds a "spa" localization of every router category: translations longer than a
	// category name may be in the base language, one of them with a line break
	Localized bool `json:"localized,omitempty"`
}

func (f FlowSpec) String() string {
	var sb strings.Builder
	for i, n := range f.Nodes {
		if i > 0 {
			sb.WriteString(" ")
		}
		fmt.Fprintf(&sb, "%s%v", n.Kind, n.Dests)
	}
	if len(f.Nodes) == 0 {
		return "(empty)"
	}
	return sb.String()
}

// Kinds of the structural alphabet and how many exits each has.
//
//	A    send_msg, 1 exit
//	AR   set_run_result, 1 exit
//	Es   enter_flow(self)            Est  enter_flow(self, terminal)
//	Eo   enter_flow(other flow)      Eot  enter_flow(other, terminal)
//	Em   enter_flow(missing flow) - the only action that fails a run
//	AW   send_msg whose text and quick reply both read a deprecated context value, then a set_run_result
//	     that reads it again: several events per step, among them consecutive identical warnings
//	EsEm / EoEm   two actions: enter_flow(self / other), then enter_flow(missing flow): the run fails
//	     after it has pushed a flow
//	W    switch on @input.text with msg wait: [has "a" -> exit0, default -> exit1]
//	WT   same with a timeout category (timeout -> exit1)
//	S    switch on @input.text without wait (same cases)
//	R    random router with 2 categories
//	D    dial wait (voice): [answered -> exit0, default -> exit1]
//	N    no actions, no router, 1 exit
var KindExits = map[string]int{
	"A": 1, "AR": 1, "Es": 1, "Est": 1, "Eo": 1, "Eot": 1, "Em": 1, "AW": 1, "EsEm": 1, "EoEm": 1, "W": 2, "WT": 2, "S": 2, "R": 2, "D": 2, "N": 1,
}

// ActionSets lets a check add node kinds "A:<name>": a node with the given action list and one
// exit. The function receives the flow and node index (for unique action UUIDs).
var ActionSets = map[string]func(f, i int) []any{}

// ActUUID makes a deterministic action UUID for custom action sets.
func ActUUID(f, i, a int) string { return actUUID(f, i, a) }

// Exits returns the number of exits of a node kind.
func Exits(kind string) int {
	if strings.HasPrefix(kind, "A:") {
		return 1
	}
	n, ok := KindExits[kind]
	if !ok {
		panic("unknown node kind " + kind)
	}
	return n
}

// RefsOther reports whether the flow enters the "other" flow.
func (f FlowSpec) RefsOther() bool {
	for _, n := range f.Nodes {
		if n.Kind == "Eo" || n.Kind == "Eot" || n.Kind == "EoEm" {
			return true
		}
	}
	return false
}

// FlowUUID is the UUID of generated flow number i ("missing" is never defined).
func FlowUUID(i int) string { return UUID(fmt.Sprintf("flow%d", i)) }

var MissingFlowUUID = UUID("flow-missing")

func nodeUUID(f, i int) string    { return UUID(fmt.Sprintf("f%d.n%d", f, i)) }
func exitUUID(f, i, e int) string { return UUID(fmt.Sprintf("f%d.n%d.e%d", f, i, e)) }
func catUUID(f, i, c int) string  { return UUID(fmt.Sprintf("f%d.n%d.c%d", f, i, c)) }
func actUUID(f, i, a int) string  { return UUID(fmt.Sprintf("f%d.n%d.a%d", f, i, a)) }

// NodeUUID / ExitUUID are exported for oracles that map UUIDs back to indices.
func NodeUUID(f, i int) string    { return nodeUUID(f, i) }
func ExitUUID(f, i, e int) string { return exitUUID(f, i, e) }

// Render turns flow number f with spec into a 13.x definition. other is the index of the flow
// that Eo/Eot enter; extra lets a check add or replace members (e.g. localization).
func Render(f int, spec FlowSpec, other int) J {
	nodes := []any{}
	for i, n := range spec.Nodes {
		nodes = append(nodes, renderNode(f, i, n, other))
	}
	typ := spec.Type
	if typ == "" {
		typ = "messaging"
	}
	def := J{
		"uuid":         FlowUUID(f),
		"name":         fmt.Sprintf("Flow %d", f),
		"spec_version": "13.5.0",
		"language":     "eng",
		"type":         typ,
		"nodes":        nodes,
	}
	if spec.Localized {
		spa := J{}
		for i, n := range spec.Nodes {
			switch n.Kind {
			case "W", "WT", "S":
				spa[catUUID(f, i, 0)] = J{"name": []any{"Sí, me gustaría mucho recibir recordatorios"}}
				spa[catUUID(f, i, 1)] = J{"name": []any{"Otra\ncosa"}}
			}
		}
		def["localization"] = J{"spa": spa}
	}
	return def
}

func switchRouter(f, i int, wait J, resultName string, timeoutCat bool) J {
	cats := []any{
		J{"uuid": catUUID(f, i, 0), "name": "A", "exit_uuid": exitUUID(f, i, 0)},
		J{"uuid": catUUID(f, i, 1), "name": "Other", "exit_uuid": exitUUID(f, i, 1)},
	}
	if timeoutCat {
		cats = append(cats, J{"uuid": catUUID(f, i, 2), "name": "No Response", "exit_uuid": exitUUID(f, i, 1)})
		wait["timeout"] = J{"seconds": 600, "category_uuid": catUUID(f, i, 2)}
	}
	r := J{
		"type":    "switch",
		"operand": "@input.text",
		"cases": []any{
			J{"uuid": UUID(fmt.Sprintf("f%d.n%d.case0", f, i)), "type": "has_any_word", "arguments": []any{"a"}, "category_uuid": catUUID(f, i, 0)},
		},
		"categories":            cats,
		"default_category_uuid": catUUID(f, i, 1),
	}
	if wait != nil {
		r["wait"] = wait
	}
	if resultName != "" {
		r["result_name"] = resultName
	}
	return r
}

func renderNode(f, i int, n Node, other int) J {
	exits := []any{}
	for e, d := range n.Dests {
		x := J{"uuid": exitUUID(f, i, e)}
		if d >= 0 {
			x["destination_uuid"] = nodeUUID(f, d)
		}
		exits = append(exits, x)
	}
	node := J{"uuid": nodeUUID(f, i), "exits": exits}
	enter := func(target string, terminal bool) {
		a := J{"uuid": actUUID(f, i, 0), "type": "enter_flow", "flow": J{"uuid": target, "name": "Target"}}
		if terminal {
			a["terminal"] = true
		}
		node["actions"] = []any{a}
		if !terminal {
			// the usual subflow router on the child's status; both categories share the node's one exit
			node["router"] = J{
				"type":    "switch",
				"operand": "@child.status",
				"cases": []any{
					J{"uuid": UUID(fmt.Sprintf("f%d.n%d.case0", f, i)), "type": "has_only_text", "arguments": []any{"completed"}, "category_uuid": catUUID(f, i, 0)},
				},
				"categories": []any{
					J{"uuid": catUUID(f, i, 0), "name": "Complete", "exit_uuid": exitUUID(f, i, 0)},
					J{"uuid": catUUID(f, i, 1), "name": "Expired", "exit_uuid": exitUUID(f, i, 0)},
				},
				"default_category_uuid": catUUID(f, i, 1),
			}
		}
	}
	switch n.Kind {
	case "A":
		node["actions"] = []any{J{"uuid": actUUID(f, i, 0), "type": "send_msg", "text": fmt.Sprintf("hi from f%d n%d", f, i)}}
	case "AR":
		node["actions"] = []any{J{"uuid": actUUID(f, i, 0), "type": "set_run_result", "name": "R", "value": fmt.Sprintf("v%d", i), "category": "C"}}
	case "AW":
		node["actions"] = []any{
			J{"uuid": actUUID(f, i, 0), "type": "send_msg", "text": "extra: @legacy_extra", "quick_replies": []any{"@legacy_extra", "@legacy_extra"}},
			J{"uuid": actUUID(f, i, 1), "type": "set_run_result", "name": "R", "value": "@legacy_extra", "category": "C"},
		}
	case "N":
		node["actions"] = []any{}
	case "Es":
		enter(FlowUUID(f), false)
	case "Est":
		enter(FlowUUID(f), true)
	case "Eo":
		enter(FlowUUID(other), false)
	case "Eot":
		enter(FlowUUID(other), true)
	case "Em":
		enter(MissingFlowUUID, false)
	case "EsEm", "EoEm":
		target := FlowUUID(f)
		if n.Kind == "EoEm" {
			target = FlowUUID(other)
		}
		enter(target, false)
		node["actions"] = append(node["actions"].([]any), J{"uuid": actUUID(f, i, 1), "type": "enter_flow", "flow": J{"uuid": MissingFlowUUID, "name": "Missing"}})
	case "W":
		node["router"] = switchRouter(f, i, J{"type": "msg"}, "Answer", false)
	case "WT":
		node["router"] = switchRouter(f, i, J{"type": "msg"}, "Answer", true)
	case "S":
		node["router"] = switchRouter(f, i, nil, "", false)
	case "R":
		node["router"] = J{
			"type": "random",
			"categories": []any{
				J{"uuid": catUUID(f, i, 0), "name": "Bucket 1", "exit_uuid": exitUUID(f, i, 0)},
				J{"uuid": catUUID(f, i, 1), "name": "Bucket 2", "exit_uuid": exitUUID(f, i, 1)},
			},
		}
	case "D":
		node["router"] = J{
			"type":    "switch",
			"operand": "@(default(resume.dial.status, \"\"))",
			"wait":    J{"type": "dial", "phone": "+593979123456", "dial_limit_seconds": 60, "call_limit_seconds": 120},
			"cases": []any{
				J{"uuid": UUID(fmt.Sprintf("f%d.n%d.case0", f, i)), "type": "has_only_text", "arguments": []any{"answered"}, "category_uuid": catUUID(f, i, 0)},
			},
			"categories": []any{
				J{"uuid": catUUID(f, i, 0), "name": "Answered", "exit_uuid": exitUUID(f, i, 0)},
				J{"uuid": catUUID(f, i, 1), "name": "Other", "exit_uuid": exitUUID(f, i, 1)},
			},
			"default_category_uuid": catUUID(f, i, 1),
		}
	default:
		if fn, ok := ActionSets[strings.TrimPrefix(n.Kind, "A:")]; ok && strings.HasPrefix(n.Kind, "A:") {
			node["actions"] = fn(f, i)
		} else {
			panic("unknown node kind " + n.Kind)
		}
	}
	return node
}

// EnumFlows enumerates all canonical flow graphs with exactly n nodes over the given kinds: every
// node reachable from node 0 and nodes numbered in BFS discovery order, so isomorphic graphs are
// generated once. n = 0 yields the empty flow.
func EnumFlows(kinds []string, n int) []FlowSpec {
	if n == 0 {
		return []FlowSpec{{}}
	}
	var out []FlowSpec
	nodes := make([]Node, n)
	var rec func(i int)
	rec = func(i int) {
		if i == n {
			if canonicalGraph(nodes) {
				cp := make([]Node, n)
				for j, nd := range nodes {
					cp[j] = Node{Kind: nd.Kind, Dests: append([]int{}, nd.Dests...)}
				}
				out = append(out, FlowSpec{Nodes: cp})
			}
			return
		}
		for _, k := range kinds {
			ne := Exits(k)
			dests := make([]int, ne)
			var recD func(e int)
			recD = func(e int) {
				if e == ne {
					nodes[i] = Node{Kind: k, Dests: dests}
					rec(i + 1)
					return
				}
				for d := -1; d < n; d++ {
					dests[e] = d
					recD(e + 1)
				}
			}
			recD(0)
		}
	}
	rec(0)
	return out
}

func canonicalGraph(nodes []Node) bool {
	n := len(nodes)
	seen := make([]bool, n)
	order := []int{0}
	seen[0] = true
	for q := 0; q < len(order); q++ {
		for _, d := range nodes[order[q]].Dests {
			if d >= 0 && !seen[d] {
				seen[d] = true
				order = append(order, d)
			}
		}
	}
	if len(order) != n {
		return false
	}
	for i, o := range order {
		if i != o {
			return false
		}
	}
	return true
}

// FlowSet is a root's program: flow 0 (started by the trigger) and, when it is referenced, flow 1.
type FlowSet struct {
	Flows []FlowSpec `json:"flows"`
}

func (fs FlowSet) String() string {
	parts := []string{}
	for i, f := range fs.Flows {
		parts = append(parts, fmt.Sprintf("F%d: %s", i, f.String()))
	}
	return strings.Join(parts, " | ")
}

// EnumFlowSets enumerates (first flow with ≤ n0 nodes) × (second flow with ≤ n1 nodes, only when
// the first enters it). In the second flow "other" means flow 0.
func EnumFlowSets(kinds []string, n0, n1 int) []FlowSet {
	var firsts, seconds []FlowSpec
	for n := 0; n <= n0; n++ {
		firsts = append(firsts, EnumFlows(kinds, n)...)
	}
	for n := 0; n <= n1; n++ {
		seconds = append(seconds, EnumFlows(kinds, n)...)
	}
	var out []FlowSet
	for _, f := range firsts {
		if f.RefsOther() {
			for _, s := range seconds {
				out = append(out, FlowSet{Flows: []FlowSpec{f, s}})
			}
		} else {
			out = append(out, FlowSet{Flows: []FlowSpec{f}})
		}
	}
	return out
}

// RenderFlows renders a flow set into definitions (flow 0 enters flow 1 and vice versa).
func RenderFlows(fs FlowSet) []any {
	out := []any{}
	for i, f := range fs.Flows {
		out = append(out, Render(i, f, 1-i))
	}
	return out
}
