package world

import (
	"sort"
	"strconv"
	"time"
)

func isHex(c byte) bool { return (c >= '0' && c <= '9') || (c >= 'a' && c <= 'f') }

func uuidAt(b []byte, i int) bool {
	if i+36 > len(b) || b[i+8] != '-' || b[i+13] != '-' || b[i+18] != '-' || b[i+23] != '-' {
		return false
	}
	for j := 0; j < 36; j++ {
		if j == 8 || j == 13 || j == 18 || j == 23 {
			continue
		}
		if !isHex(b[i+j]) {
			return false
		}
	}
	return true
}

// timeAt recognises a quoted RFC3339 timestamp starting at the quote b[i]; it returns its length
// including both quotes.
func timeAt(b []byte, i int) int {
	if i+21 > len(b) || b[i] != '"' || b[i+5] != '-' || b[i+8] != '-' || b[i+11] != 'T' || b[i+14] != ':' || b[i+17] != ':' {
		return 0
	}
	for j := i + 20; j < len(b) && j < i+40; j++ {
		if b[j] == '"' {
			return j - i + 1
		}
	}
	return 0
}

// Canon canonicalises a JSON text: every UUID becomes U<k> in order of first occurrence and every
// RFC3339 timestamp T<rank> by rank among the distinct instants in the text. The engine reads UUIDs
// only for equality/lookup and times only for ordering or to copy them, so both renamings preserve
// what the futures of a state can depend on.
func Canon(b []byte) string {
	type tok struct {
		pos, n int
		uuid   bool
		t      time.Time
		ok     bool
	}
	var toks []tok
	for i := 0; i < len(b); i++ {
		c := b[i]
		if c == '"' {
			if n := timeAt(b, i); n > 0 {
				t, err := time.Parse(time.RFC3339Nano, string(b[i+1:i+n-1]))
				if err == nil {
					toks = append(toks, tok{pos: i, n: n, t: t, ok: true})
					i += n - 1
					continue
				}
			}
		}
		if isHex(c) && (i == 0 || !isHex(b[i-1])) && uuidAt(b, i) {
			toks = append(toks, tok{pos: i, n: 36, uuid: true})
			i += 35
		}
	}
	// rank the instants
	var insts []time.Time
	for _, t := range toks {
		if !t.uuid {
			insts = append(insts, t.t)
		}
	}
	sort.Slice(insts, func(i, j int) bool { return insts[i].Before(insts[j]) })
	var uniq []time.Time
	for _, t := range insts {
		if len(uniq) == 0 || !uniq[len(uniq)-1].Equal(t) {
			uniq = append(uniq, t)
		}
	}
	rank := func(t time.Time) int {
		return sort.Search(len(uniq), func(i int) bool { return !uniq[i].Before(t) })
	}
	ids := map[string]int{}
	out := make([]byte, 0, len(b))
	last := 0
	for _, t := range toks {
		out = append(out, b[last:t.pos]...)
		if t.uuid {
			s := string(b[t.pos : t.pos+36])
			k, ok := ids[s]
			if !ok {
				k = len(ids)
				ids[s] = k
			}
			out = append(out, 'U')
			out = strconv.AppendInt(out, int64(k), 10)
		} else {
			out = append(out, '"', 'T')
			out = strconv.AppendInt(out, int64(rank(t.t)), 10)
			out = append(out, '"')
		}
		last = t.pos + t.n
	}
	out = append(out, b[last:]...)
	return string(out)
}
